#!/venv/bin/python
"""Confirm a sub-agent's seeded change and file it under /verif/seeded/<id>/.

usage: confirm_seeded.py <src_dir with patch.diff demo.py notes.md> <id> <property> [--budget N] [--checks C01,C11]

Steps (all in a scratch copy of /repo outside /repo and /verif, removed afterwards):
  1. demo.py on the unmodified copy  -> must exit 0
  2. apply patch.diff                -> must apply
  3. repo test suite                 -> must pass
  4. demo.py on the patched copy     -> must exit 1
  5. run the property's check(s) with VERIF_REPO=<copy> -> record detected / missed
"""
import json
import os
import shutil
import subprocess
import sys
import tempfile
import time

VERIF = os.path.dirname(os.path.dirname(os.path.abspath(__file__)))
PY = "/venv/bin/python"


def main():
    args = [a for a in sys.argv[1:] if not a.startswith("--")]
    src, sid, prop = args[0], args[1], args[2]
    budget = "30"
    checks = [prop]
    for i, a in enumerate(sys.argv):
        if a == "--budget":
            budget = sys.argv[i + 1]
        if a == "--checks":
            checks = sys.argv[i + 1].split(",")
    args = [a for a in args if a not in (budget,)]
    d = tempfile.mkdtemp(prefix="pyab-seed-")
    meta = {"id": sid, "property": prop, "ran": []}
    try:
        for sub in ("src", "tests", "pyproject.toml", "README.md"):
            s = os.path.join("/repo", sub)
            if os.path.isdir(s):
                shutil.copytree(s, os.path.join(d, sub), ignore=shutil.ignore_patterns("__pycache__"))
            else:
                shutil.copy(s, os.path.join(d, sub))
        home = os.path.join(d, "home")
        os.makedirs(home, exist_ok=True)
        # tests / demos of changes that keep things on disk must not leave them in the real home or /tmp
        env = dict(os.environ, PYTHONPATH=os.path.join(d, "src"), PYTHONDONTWRITEBYTECODE="1", HOME=home, XDG_CACHE_HOME=home,
                   TMPDIR=home, PYAB_CACHE_DIR=os.path.join(home, "pyab-cache"))
        # some demos locate the package relative to their own path (../../src): give them the same layout inside the copy
        os.makedirs(os.path.join(d, "out", "k"), exist_ok=True)
        demo = os.path.join(d, "out", "k", "demo.py")
        shutil.copy(os.path.join(src, "demo.py"), demo)

        def run_demo():
            p = subprocess.run([PY, demo], cwd=d, env=env, capture_output=True, text=True, timeout=600)
            return p.returncode, (p.stdout + p.stderr)[-600:]

        rc0, out0 = run_demo()
        meta["demo_unpatched_rc"] = rc0
        ap = subprocess.run(["git", "apply", "--whitespace=nowarn", os.path.join(src, "patch.diff")], cwd=d, capture_output=True, text=True)
        if ap.returncode != 0:
            ap = subprocess.run(["patch", "-p1", "-s", "-i", os.path.join(src, "patch.diff")], cwd=d, capture_output=True, text=True)
        meta["patch_applies"] = ap.returncode == 0
        tp = subprocess.run([PY, "-m", "pytest", "-q", "-p", "no:cacheprovider", "tests"], cwd=d, env=env, capture_output=True, text=True, timeout=1800)
        meta["tests_pass_with_patch"] = tp.returncode == 0
        meta["tests_tail"] = tp.stdout.strip().splitlines()[-1] if tp.stdout.strip() else ""
        rc1, out1 = run_demo()
        meta["demo_patched_rc"] = rc1
        meta["demo_patched_output_tail"] = out1[-300:]
        meta["confirmed"] = bool(rc0 == 0 and meta["patch_applies"] and meta["tests_pass_with_patch"] and rc1 == 1)
        meta["ran"].append(f"demo.py unpatched rc={rc0}; git apply patch.diff; pytest ({meta['tests_tail']}); demo.py patched rc={rc1}")
        meta["checks"] = {}
        for c in checks:
            t0 = time.monotonic()
            cenv = dict(os.environ, VERIF_REPO=d, VERIF_BUDGET=budget, VERIF_EVIDENCE_DIR=os.path.join(d, "evidence"),
                        VERIF_REPLAY_DIR=os.path.join(d, "replays"))
            cp = subprocess.run([os.path.join(VERIF, "check"), c, "--tier", "quick"], cwd=VERIF, env=cenv, capture_output=True, text=True, timeout=3600)
            det = cp.returncode == 1 and ("VIOLATION property=" + c) in cp.stdout
            vcls = []
            rd = os.path.join(d, "replays")
            if os.path.isdir(rd):
                for f in sorted(os.listdir(rd)):
                    try:
                        vcls.append(json.load(open(os.path.join(rd, f))).get("vclass"))
                    except Exception:
                        pass
                shutil.rmtree(rd)
            meta["checks"][c] = {"detected": det, "rc": cp.returncode, "budget_s": budget, "wall_s": round(time.monotonic() - t0, 1),
                                 "summary": cp.stdout.strip().splitlines()[0][:200] if cp.stdout.strip() else cp.stderr[-300:],
                                 "violation_classes": sorted(set(x for x in vcls if x))}
            meta["ran"].append(f"VERIF_REPO=<patched copy> VERIF_BUDGET={budget} ./check {c} --tier quick -> rc={cp.returncode}")
    finally:
        shutil.rmtree(d, ignore_errors=True)
    print(json.dumps(meta, indent=1))
    if meta.get("confirmed"):
        dst = os.path.join(VERIF, "seeded", sid)
        os.makedirs(dst, exist_ok=True)
        for f in ("patch.diff", "demo.py", "notes.md"):
            if os.path.exists(os.path.join(src, f)):
                shutil.copy(os.path.join(src, f), os.path.join(dst, f))
        notes = ""
        if os.path.exists(os.path.join(src, "notes.md")):
            notes = open(os.path.join(src, "notes.md")).read()
        meta["needs_to_manifest"] = notes[:1500]
        with open(os.path.join(dst, "meta.json"), "w") as fp:
            json.dump(meta, fp, indent=1)
    return 0


if __name__ == "__main__":
    sys.exit(main())
