#!/venv/bin/python
"""Run all three checks against a behaviour-preserving change: every check must exit 0 (no false alarm).

usage: check_benign.py <src_dir with patch.diff notes.md [selfcheck.py]> <id> [--budget N]
Files the change under /verif/benign/<id>/ with meta.json (what was run, result).
"""
import json
import os
import shutil
import subprocess
import sys
import tempfile
import time

VERIF = os.path.dirname(os.path.dirname(os.path.abspath(__file__)))
PY = "/venv/bin/python"


def main():
    src, bid = sys.argv[1], sys.argv[2]
    budget = "40"
    if "--budget" in sys.argv:
        budget = sys.argv[sys.argv.index("--budget") + 1]
    d = tempfile.mkdtemp(prefix="pyab-benign-")
    meta = {"id": bid, "kind": "behaviour-preserving change (false-alarm test)", "ran": [], "checks": {}}
    try:
        for sub in ("src", "tests", "pyproject.toml", "README.md"):
            s = os.path.join("/repo", sub)
            if os.path.isdir(s):
                shutil.copytree(s, os.path.join(d, sub), ignore=shutil.ignore_patterns("__pycache__"))
            else:
                shutil.copy(s, os.path.join(d, sub))
        ap = subprocess.run(["git", "apply", "--whitespace=nowarn", os.path.join(src, "patch.diff")], cwd=d, capture_output=True, text=True)
        meta["patch_applies"] = ap.returncode == 0
        home = os.path.join(d, "home")
        os.makedirs(home, exist_ok=True)
        # tests / demos of changes that keep things on disk must not leave them in the real home or /tmp
        env = dict(os.environ, PYTHONPATH=os.path.join(d, "src"), PYTHONDONTWRITEBYTECODE="1", HOME=home, XDG_CACHE_HOME=home,
                   TMPDIR=home, PYAB_CACHE_DIR=os.path.join(home, "pyab-cache"))
        tp = subprocess.run([PY, "-m", "pytest", "-q", "-p", "no:cacheprovider", "tests"], cwd=d, env=env, capture_output=True, text=True, timeout=1800)
        meta["tests_pass_with_patch"] = tp.returncode == 0
        sc = os.path.join(src, "selfcheck.py")
        if os.path.exists(sc):
            sp = subprocess.run([PY, sc], cwd=d, env=env, capture_output=True, text=True, timeout=1200)
            meta["selfcheck_rc"] = sp.returncode
        for c in ("C11", "C17", "C01"):
            t0 = time.monotonic()
            cenv = dict(os.environ, VERIF_REPO=d, VERIF_BUDGET=budget, VERIF_EVIDENCE_DIR=os.path.join(d, "evidence"),
                        VERIF_REPLAY_DIR=os.path.join(d, "replays-" + c))
            cp = subprocess.run([os.path.join(VERIF, "check"), c, "--tier", "quick"], cwd=VERIF, env=cenv, capture_output=True, text=True, timeout=3600)
            vcls = []
            rd = os.path.join(d, "replays-" + c)
            keep = []
            if os.path.isdir(rd):
                for f in sorted(os.listdir(rd)):
                    try:
                        j = json.load(open(os.path.join(rd, f)))
                        vcls.append(j.get("vclass"))
                        keep.append((f, j))
                    except Exception:
                        pass
            meta["checks"][c] = {"rc": cp.returncode, "quiet": cp.returncode == 0 and "VIOLATION" not in cp.stdout, "wall_s": round(time.monotonic() - t0, 1),
                                 "summary": cp.stdout.strip().splitlines()[0][:200] if cp.stdout.strip() else "",
                                 "stderr_tail": cp.stderr[-400:], "violation_classes": sorted(set(x for x in vcls if x))}
            if keep:
                os.makedirs(os.path.join("/tmp", "benign-replays", bid), exist_ok=True)
                for f, j in keep[:3]:
                    json.dump(j, open(os.path.join("/tmp", "benign-replays", bid, c + "-" + f), "w"), indent=1)
            meta["ran"].append(f"VERIF_REPO=<patched copy> VERIF_BUDGET={budget} ./check {c} --tier quick -> rc={cp.returncode}")
    finally:
        shutil.rmtree(d, ignore_errors=True)
    meta["all_quiet"] = all(v["quiet"] for v in meta["checks"].values())
    print(json.dumps(meta, indent=1))
    dst = os.path.join(VERIF, "benign", bid)
    os.makedirs(dst, exist_ok=True)
    for f in ("patch.diff", "notes.md", "selfcheck.py"):
        if os.path.exists(os.path.join(src, f)):
            shutil.copy(os.path.join(src, f), os.path.join(dst, f))
    with open(os.path.join(dst, "meta.json"), "w") as fp:
        json.dump(meta, fp, indent=1)
    return 0


if __name__ == "__main__":
    sys.exit(main())
