"""C17 check: workload, history oracle, minimisation, master / worker / replay for the threads engine."""

from __future__ import annotations

import json
import os
import sys
import time

from . import common, driver, gen, threads
from .common import HarnessError, SimStream, outcome_of, rng_for

PROP = "C17"
TIERS = {"quick": {"budget": 90.0}, "thorough": {"budget": 840.0}}
MAX_VIOLATIONS_REPORTED = 3
PANEL_PROBES_AFTER_NEW = 3


# ---------------------------------------------------------------------------
# scenario generation
# ---------------------------------------------------------------------------
def union_fields(rng, progs, n_valid):
    """Keyword arguments that satisfy EVERY valid text of the alphabet at once (the union of their fields): a call made with
    them succeeds whichever text the evaluator serves, so an error can only come from a mixture of two texts."""
    f = {}
    order = list(range(n_valid))
    rng.shuffle(order)
    for i in order:
        f.update(gen.gen_fields(rng, progs[i], ascii_only=True, p_missing=0.0, p_extra=0.0))
    return f


def gen_scenario(rng, index):
    """Two families (swarm style): 'race' = few threads hammering one shared evaluator with small texts (many
    schedules per second, the publish / check-then-act windows are a large share of each run); 'swarm' = anything goes."""
    r0 = rng.random()
    # 'cold': nothing of the package has run in the process before the threads start (the sequential reference is taken
    # afterwards): first-use / lazy-initialisation races are only visible here
    family = "race" if r0 < 0.45 else ("cold" if r0 < 0.65 else "swarm")
    progs = []
    n_base = rng.choice([1, 2, 2, 3]) if family != "cold" else 1
    shared_name = rng.choice(["exp_a", "exp_b"])
    for _ in range(n_base):
        opts = {"splitters": (1, 3), "p_comment": rng.choice([0.0, 0.05, 0.15]), "p_kwprefix": 0.0, "p_shared_field": 0.0,
                "depths": [0, 1, 1, 2, 2, 3], "max_returns": 12,
                # schedules per second matter more here than program shapes: keep the texts small
                "group_choices": [1, 1, 2, 2, 2, 3, 3, 4, 5, 6, 8], "elif_choices": [0, 0, 1, 1, 2, 3, 4]}
        if family == "race":
            opts.update(depths=[0, 0, 1], compact=rng.random() < 0.7, splitters=(1, 2))
        if rng.random() < 0.6:
            opts["name"] = shared_name
        progs.append(gen.gen_program(rng, f"r{index}t{len(progs)}", **opts))
    for _ in range(rng.choice([1, 2, 2, 3]) if family != "cold" else rng.choice([0, 0, 1])):
        progs.append(gen.variant_of(rng, rng.choice(progs[:n_base]), f"r{index}t{len(progs)}"))
    n_valid = len(progs)
    for _ in range(rng.choice([0, 0, 1, 1, 2])):
        progs.append(gen.gen_invalid(rng, rng.choice(progs[:n_valid]), f"r{index}t{len(progs)}"))
    texts = [{"tid": p.tid, "text": p.text, "kind": p.kind, "note": p.note,
              "panel": gen.gen_panel(rng, p, n=5, ascii_only=True)} for p in progs]
    n_shared = rng.choice([1, 1, 1, 2])
    n_threads = rng.choice([2, 2, 2, 2, 3, 3, 4, 4, 6, 8, 16])
    max_ops = 4 if n_threads <= 4 else 2
    mix = rng.choice(["recompile-heavy", "mixed", "construct-heavy", "call-heavy"])
    if family == "race":
        n_shared, n_threads, max_ops, mix = 1, rng.choice([2, 2, 2, 3, 4]), 2, rng.choice(["race", "race", "recompile-heavy", "call-vs-recompile",
                                                                                          "call-vs-recompile", "call-vs-recompile", "call-storm", "call-storm"])
        if mix == "call-storm":
            n_shared = 2
    if family == "cold":
        n_shared, n_threads, max_ops, mix = 0, rng.choice([2, 2, 3, 4]), 2, "cold"
    shared = [rng.randrange(n_valid) for _ in range(n_shared)]
    th = []
    for _t in range(n_threads):
        ops = []
        if mix == "call-storm":
            # nothing but calls, on shared and private evaluators, under dense switching: shared scratch state on the evaluation path
            if rng.random() < 0.5:
                ops.append({"op": "new", "t": rng.randrange(n_valid)})
            if _t == 0:
                # in half of the storms the threads ask about the same few units (one unit evaluated by two threads at once is
                # the everyday case of a request-serving process, and the one in which per-key scratch state collides)
                storm_pool = [gen.gen_fields(rng, progs[rng.randrange(n_valid)], ascii_only=True, p_missing=0.0)
                              for _ in range(rng.choice([2, 3, 4]))] if rng.random() < 0.65 else None
            for _ in range(rng.randint(3, 8) if storm_pool is None else rng.randint(6, 20)):
                f = rng.choice(storm_pool) if storm_pool and rng.random() < 0.8 else \
                    gen.gen_fields(rng, progs[rng.randrange(n_valid)], ascii_only=True, p_missing=0.0)
                if rng.random() < 0.7 or not ops:
                    ops.append({"op": "call", "s": rng.randrange(n_shared), "f": f})
                else:
                    ops.append({"op": "pcall", "f": f})
            th.append(ops)
            continue
        if mix == "call-vs-recompile":
            # callers hammer the shared evaluator while others recompile it
            if _t % 2 == 0:
                for _ in range(rng.randint(1, 2)):
                    ops.append({"op": "recompile", "s": 0, "t": rng.randrange(n_valid)})
            else:
                for _ in range(rng.randint(2, 5)):
                    ops.append({"op": "call", "s": 0, "f": union_fields(rng, progs, n_valid) if rng.random() < 0.6 else
                                gen.gen_fields(rng, progs[rng.randrange(n_valid)], ascii_only=True, p_missing=0.0)})
            th.append(ops)
            continue
        for _ in range(rng.randint(1, max_ops)):
            r = rng.random()
            w = {"cold": (0.0, 0.0, 0.85), "race": (0.8, 1.0, 1.0), "recompile-heavy": (0.6, 0.85, 0.95), "mixed": (0.35, 0.65, 0.85),
                 "construct-heavy": (0.15, 0.3, 0.85), "call-heavy": (0.2, 0.75, 0.85)}[mix]
            if r < w[0]:
                t = rng.randrange(len(progs)) if rng.random() < 0.15 else rng.randrange(n_valid)
                ops.append({"op": "recompile", "s": rng.randrange(n_shared), "t": t})
            elif r < w[1]:
                src = rng.randrange(n_valid)
                ops.append({"op": "call", "s": rng.randrange(n_shared), "f": union_fields(rng, progs, n_valid) if rng.random() < 0.4 else
                            gen.gen_fields(rng, progs[src], ascii_only=True)})
            elif r < w[2]:
                t = rng.randrange(len(progs)) if rng.random() < 0.15 else rng.randrange(n_valid)
                ops.append({"op": "new", "t": t})
            else:
                src = rng.randrange(n_valid)
                ops.append({"op": "pcall", "f": gen.gen_fields(rng, progs[src], ascii_only=True)})
        th.append(ops)
    if family == "cold" and rng.random() < 0.2:
        # one thread first fills the process with a few hundred small experiments (bounded caches, sweeper threads the package may
        # start lazily - and which the scheduler then owns - come to life inside the simulation)
        th[0].insert(0, {"op": "preload", "n": rng.choice([140, 270, 300])})
        if len(th) > 1 and th[1] and th[1][0]["op"] == "new":
            th[1].append(dict(th[1][0]))          # the same text again at the end of another thread
    pk = rng.choice(["bernoulli", "bernoulli", "targeted", "targeted", "targeted", "pct", "park", "park"])
    if family == "race" and rng.random() < 0.6:
        pk = rng.choice(["targeted", "park", "park"])
    storm_park = False
    if family == "race" and mix == "call-storm":
        pk = "bernoulli"
        storm_park = storm_pool is not None and rng.random() < 0.7
    if family == "cold":
        # first-use races: one thread should get well ahead of the others before they start
        pk = rng.choice(["pct", "bernoulli", "targeted", "park", "park", "park"])
    if pk == "bernoulli":
        # every switch costs two OS context switches: keep the dense policy for the small 'race' workloads
        p = rng.choice([0.3, 0.03, 0.003]) if family == "race" else rng.choice([0.03, 0.003, 0.0003, 0.0003])
        if mix == "call-storm":
            p = rng.choice([0.5, 0.3, 0.1])
        policy = {"kind": "bernoulli", "p_line": p, "p_hot": p}
    elif pk == "targeted":
        policy = {"kind": "targeted", "p_line": rng.choice([0.0005, 0.005]), "p_hot": rng.choice([0.1, 0.3, 0.5])}
    elif pk == "park":
        policy = {"kind": "park", "p_line": rng.choice([0.0, 0.0005]), "p_hot": rng.choice([0.0, 0.02, 0.1, 0.3]),
                  "k_max": rng.choice([40, 160, 160, 400]), "need": rng.choice([1, 1, 2]),
                  "mode": rng.choice(["late", "late", "uniform", "uniform", "fixed"]), "back": rng.randrange(0, 16)}
    else:
        policy = {"kind": "pct", "d": rng.choice([1, 2, 3])}
    if storm_park:
        # repeated delay injection over a call-only workload: again and again one thread is held at some instruction of the evaluation path
        # (every package instruction counts as a hot point there) while another thread completes a whole call
        policy = {"kind": "park", "p_line": 0.0, "p_hot": rng.choice([0.0, 0.0, 0.02]), "k_max": rng.choice([60, 200]), "need": rng.choice([1, 1, 2]),
                  "mode": "fixed", "back": 0, "rearm": rng.choice([25, 60, 150])}
    sc_pre = rng.choice([0] * 16 + [150, 300]) if family != "cold" else 0
    return {"index": index, "all_hot": storm_park, "texts": texts, "shared": shared, "threads": th, "policy": policy, "sched_stream": "sched",
            "epi": rng.random(), "family": family,
            # a long-lived process: this many small distinct texts are compiled (sequentially) before the threads start, so that
            # bounded process-wide caches are full and their eviction paths run during the race
            "preload": sc_pre,
            # instruction-level pre-emption inside the vendored sly lexer / parser as well (small workloads only)
            "deep_sly": family in ("race", "cold") and max(len(t["text"]) for t in texts) < 3000
            and rng.random() < (0.6 if sc_pre else 0.15)}


# ---------------------------------------------------------------------------
# execution of one scenario
# ---------------------------------------------------------------------------
class Violation(Exception):
    def __init__(self, vclass, detail):
        super().__init__(vclass)
        self.vclass, self.detail = vclass, detail


class Runner:
    def __init__(self):
        from pyab_experiment.experiment_evaluator import ExperimentEvaluator

        self.EE = ExperimentEvaluator
        self.fc = threads.FrameClasses()
        self.hot = threads.install_hot_instrumentation(self.fc)
        self.out = SimStream("stdout")
        self.err = SimStream("stderr")

    def judge(self, sc):
        judged = []
        for t in sc["texts"]:
            h0 = threads.HOT_COUNT[0]
            try:
                ev = self.EE(t["text"])
                hot = threads.HOT_COUNT[0] - h0
                # an accepted text whose result depends on the global random state (no splitter key reaches the choice function,
                # e.g. after the parser's error recovery dropped the splitters clause) has no sequential reference value
                import random as _random

                _random.seed(11)
                a = [outcome_of(ev, **f) for f in t["panel"]]
                _random.seed(22)
                b = [outcome_of(ev, **f) for f in t["panel"]]
                _random.seed(33)
                c = [outcome_of(ev, **f) for f in t["panel"]]
                judged.append({"accepts": True, "ev": ev, "hot": hot, "random": not (a == b == c)})
            except Exception as e:  # noqa: BLE001
                judged.append({"accepts": False, "ev": None, "exc": type(e).__name__, "hot": threads.HOT_COUNT[0] - h0})
        return judged

    @staticmethod
    def hot_ends(sc, judged):
        """Estimated cumulative number of hot points at the end of each operation, per thread (sequential measurements)."""
        out = []
        for ops in sc["threads"]:
            acc, ends = 0, []
            for op in ops:
                if op["op"] in ("new", "recompile"):
                    acc += judged[op["t"]]["hot"] + (PANEL_PROBES_AFTER_NEW * 14 if op["op"] == "new" else 0)
                else:
                    acc += 14
                ends.append(acc)
            out.append(ends)
        return out

    def make_chooser(self, sc, seed, decisions, est_steps, judged=None):
        if decisions is not None:
            return threads.ReplayChooser(decisions)
        rng = rng_for(PROP, seed, sc["index"], sc.get("sched_stream", "sched"))
        pol = sc["policy"]
        if pol["kind"] == "pct":
            return threads.PCTChooser(rng, len(sc["threads"]), est_steps, pol["d"])
        if pol["kind"] == "park":
            late = None
            k_max = pol.get("k_max", 160)
            if judged is not None:
                ends = self.hot_ends(sc, judged)
                if pol.get("mode") == "late":
                    late = (ends, pol.get("back", 0))
                elif pol.get("mode") == "uniform":
                    k_max = max(8, max((e[-1] for e in ends if e), default=k_max))
            return threads.ParkChooser(rng, len(sc["threads"]), pol["p_line"], pol["p_hot"], k_max, pol.get("need", 1), late, pol.get("rearm", 0))
        return threads.BernoulliChooser(rng, pol["p_line"], pol["p_hot"])

    def run(self, sc, seed, decisions=None):
        """Runs the scenario in a forked child (identical pristine process image for every run; a hung run can be killed)."""
        return common.run_isolated(self.run_here, (sc, seed, decisions), timeout=240.0)

    def run_here(self, sc, seed, decisions=None):
        """Executes the scenario under the simulator. Returns a result dict."""
        old = sys.stdout, sys.stderr
        sys.stdout, sys.stderr = self.out, self.err
        try:
            return self._run(sc, seed, decisions)
        finally:
            sys.stdout, sys.stderr = old
            self.out.take(), self.err.take()

    def _run(self, sc, seed, decisions):
        texts = sc["texts"]
        if sc.get("deep_sly"):
            threads.instrument_sly()
        cold = sc.get("family") == "cold" and not sc["shared"]
        try:
            judged = None if cold else self.judge(sc)
        except threads.SimDeadlock:
            return {"result": "skip", "why": "sequential reference deadlocks (C11's business)"}
        if judged is not None and any(j.get("random") for j in judged):
            return {"result": "skip", "why": "an accepted text draws from the global random state: no sequential reference"}
        for k in sc["shared"]:
            if not judged[k]["accepts"]:
                return {"result": "skip", "why": "initial text of a shared evaluator is rejected by the tree"}
        try:
            shared = [self.EE(texts[k]["text"]) for k in sc["shared"]]
        except threads.SimDeadlock:
            return {"result": "skip", "why": "sequential reference deadlocks (C11's business)"}
        except Exception as e:  # noqa: BLE001
            # purely sequential inconsistency (a text accepted a moment ago is now refused): C11's business, not a schedule
            return {"result": "skip", "why": "sequential reference inconsistent: " + type(e).__name__}
        if sc.get("preload"):
            try:
                for j in range(sc["preload"]):
                    self.EE('def warm_%d { splitters: uid return "w%d.a" weighted %d, "w%d.b" weighted 1 }' % (j % 7, j, 1 + j % 5, j))
            except threads.SimDeadlock:
                return {"result": "skip", "why": "sequential reference deadlocks (C11's business)"}
            except Exception as e:  # noqa: BLE001
                return {"result": "skip", "why": "sequential preload failed: " + type(e).__name__}
        hist = []
        private = [None] * len(sc["threads"])

        def make_body(ti, ops):
            def body(sched, t):
                for oi, op in enumerate(ops):
                    sched.yield_point(t, 3, 9001, oi)
                    inv = sched.step
                    kind = op["op"]
                    rec = {"th": ti, "oi": oi, "op": kind, "inv": inv}
                    if kind == "recompile":
                        rec["s"], rec["t"] = op["s"], op["t"]
                        rec["out"] = outcome_of(shared[op["s"]].recompile, texts[op["t"]]["text"])
                    elif kind == "call":
                        rec["s"], rec["f"] = op["s"], op["f"]
                        rec["out"] = outcome_of(shared[op["s"]], **op["f"])
                    elif kind == "new":
                        rec["t"] = op["t"]
                        try:
                            ev = self.EE(texts[op["t"]]["text"])
                            rec["out"] = ("ok",)
                            private[ti] = (op["t"], ev)
                            rec["probes"] = [outcome_of(ev, **f) for f in texts[op["t"]]["panel"][:PANEL_PROBES_AFTER_NEW]]
                        except threads.Abort:
                            raise
                        except Exception as e:  # noqa: BLE001
                            rec["out"] = ("raise", type(e).__name__)
                    elif kind == "preload":
                        # a long-lived process in fast motion: many small distinct texts are constructed by THIS simulated thread
                        ok = 0
                        for j in range(op["n"]):
                            try:
                                self.EE('def warm_%d { splitters: uid return "w%d.a" weighted %d, "w%d.b" weighted 1 }' % (j % 7, j, 1 + j % 5, j))
                                ok += 1
                            except threads.Abort:
                                raise
                            except Exception:  # noqa: BLE001
                                pass
                        rec["out"] = ("ok", "int", str(ok))
                    elif kind == "pcall":
                        if private[ti] is not None:
                            rec["t"], rec["f"] = private[ti][0], op["f"]
                            rec["out"] = outcome_of(private[ti][1], **op["f"])
                        else:
                            rec["out"] = None
                    rec["ret"] = sched.step
                    hist.append(rec)
                    sched.yield_point(t, 3, 9002, oi)
            return body

        n_compiles = sum(1 for ops in sc["threads"] for op in ops if op["op"] in ("new", "recompile"))
        est = 4000 * n_compiles + 200
        # generous upper bound on the yield points this workload needs (about 6 line events per source character and compile):
        # exceeding four times that is a hang, not a long run
        need = sum(len(texts[op["t"]]["text"]) * 8 + 4000 for ops in sc["threads"] for op in ops if op["op"] in ("new", "recompile")) \
            + 3000 * sum(len(ops) for ops in sc["threads"]) + sum(4000 * op.get("n", 0) for ops in sc["threads"] for op in ops if op["op"] == "preload")
        if sc.get("deep_sly"):
            need *= 12
        chooser = self.make_chooser(sc, seed, decisions, est, judged)
        sched = threads.Scheduler([make_body(i, ops) for i, ops in enumerate(sc["threads"])], chooser, self.fc,
                                  step_cap=max(2_000_000, 4 * need))
        sched.all_hot = bool(sc.get("all_hot"))
        sched.run()
        info = {"steps": sched.step, "switches": sched.switches, "hot_points": sched.hot_points,
                "digest": "%016x" % (sched.digest & 0xFFFFFFFFFFFFFFFF), "switch_digest": "%016x" % (sched.switch_digest & 0xFFFFFFFFFFFFFFFF),
                "lock_acquire": sched.stats.get("lock_acquire", 0), "lock_blocked": sched.stats.get("lock_blocked", 0),
                "lock_timeout": sched.stats.get("lock_timeout", 0), "sleep": sched.stats.get("sleep", 0), "parked": sched.stats.get("parked", 0), "foreign_points": sched.foreign_points, "adopted": sched.adopted_count}
        res = {"result": "ok", "info": info, "decisions": [list(d) for d in sched.decisions], "hist": hist}
        if cold and sched.deadlock is None:
            try:
                judged = self.judge(sc)         # reference taken after the race
            except threads.SimDeadlock as e:
                res.update(result="violation", vclass="deadlock", detail={"phase": "sequential constructions after the race", "detail": str(e)})
                return res
            if any(j.get("random") for j in judged):
                return {"result": "skip", "why": "an accepted text draws from the global random state: no sequential reference"}
        try:
            if sched.deadlock is not None:
                raise Violation("deadlock", {"blocked_threads": sched.deadlock["blocked"], "step": sched.step,
                                             "why": "no runnable thread while some are blocked on a lock: a call never returns"})
            info["overlaps"] = self.check_history(sc, judged, hist)
            try:
                info["epilogue"] = self.epilogue(sc, judged, shared, hist)
            except threads.SimDeadlock as e:
                raise Violation("deadlock", {"phase": "quiescent epilogue", "why": "with nothing in flight an operation blocks on a lock that a "
                                             "finished operation left held: it would never return", "detail": str(e)})
        except Violation as v:
            res.update(result="violation", vclass=v.vclass, detail=v.detail)
        return res

    # -- oracle ---------------------------------------------------------------------
    @staticmethod
    def _writes(sc, judged, hist, s):
        w = [(-1, -1, sc["shared"][s])]
        for r in hist:
            if r["op"] == "recompile" and r["s"] == s and r["out"][0] == "ok" and judged[r["t"]]["accepts"]:
                w.append((r["inv"], r["ret"], r["t"]))
        return w

    @staticmethod
    def _current(writes, p):
        done = [w for w in writes if w[1] < p]
        return {w[2] for w in done if not any(w2[0] > w[1] and w2[1] < p for w2 in done)}

    @classmethod
    def _allowed_point(cls, writes, p):
        res = cls._current(writes, p)
        for w in writes:
            if w[0] < p <= w[1]:
                res.add(w[2])
                res |= cls._allowed_point(writes, w[0])
        return res

    @classmethod
    def _allowed_call(cls, writes, inv, ret):
        res = cls._current(writes, inv)
        n_over = 0
        for w in writes:
            if w[1] >= inv and w[0] <= ret and w[0] >= 0:
                n_over += 1
                res.add(w[2])
                res |= cls._allowed_point(writes, w[0])
        return res, n_over

    def check_history(self, sc, judged, hist):
        texts = sc["texts"]
        after = " (cold run: the sequential reference was taken AFTER the race, in the same process)" if sc.get("family") == "cold" else ""
        overlaps = 0
        wcache = {}
        for r in hist:
            k = r["op"]
            if k == "preload":
                if r["out"][2] != str([op for ops in sc["threads"] for op in ops if op["op"] == "preload"][0]["n"]):
                    raise Violation("new-raised-on-valid-text", {"thread": r["th"], "op_index": r["oi"], "what": "preload of small valid texts",
                                                                 "constructed": r["out"][2], "why": "sequentially every one of them is accepted"})
                continue
            if k in ("new", "recompile"):
                acc = judged[r["t"]]["accepts"]
                if acc and r["out"][0] == "raise":
                    raise Violation(k + "-raised-on-valid-text",
                                    {"thread": r["th"], "op_index": r["oi"], "tid": texts[r["t"]]["tid"], "got": r["out"],
                                     "why": "sequentially this %s succeeds%s" % (k, after)})
                if not acc and r["out"][0] != "raise":
                    raise Violation(k + "-accepted-invalid-text",
                                    {"thread": r["th"], "op_index": r["oi"], "tid": texts[r["t"]]["tid"], "got": r["out"],
                                     "why": "sequentially this %s raises %s%s" % (k, judged[r["t"]].get("exc"), after)})
                if k == "new" and acc:
                    for f, got in zip(texts[r["t"]]["panel"], r["probes"]):
                        exp = outcome_of(judged[r["t"]]["ev"], **f)
                        if got != exp:
                            raise Violation("constructed-evaluator-differs",
                                            {"thread": r["th"], "op_index": r["oi"], "tid": texts[r["t"]]["tid"], "fields": f,
                                             "got": got, "expected": exp,
                                             "why": "an evaluator constructed concurrently does not behave like the one built alone"})
            elif k == "pcall" and r["out"] is not None:
                exp = outcome_of(judged[r["t"]]["ev"], **r["f"])
                if tuple(r["out"]) != exp:
                    raise Violation("private-call-differs", {"thread": r["th"], "op_index": r["oi"], "tid": texts[r["t"]]["tid"],
                                                             "fields": r["f"], "got": r["out"], "expected": exp})
            elif k == "call":
                s = r["s"]
                if s not in wcache:
                    wcache[s] = self._writes(sc, judged, hist, s)
                allowed, n_over = self._allowed_call(wcache[s], r["inv"], r["ret"])
                overlaps += 1 if n_over else 0
                exps = {x: outcome_of(judged[x]["ev"], **r["f"]) for x in sorted(allowed)}
                if tuple(r["out"]) not in exps.values():
                    vclass = "shared-call-error" if r["out"][0] == "raise" else "shared-call-not-old-or-new"
                    raise Violation(vclass, {"thread": r["th"], "op_index": r["oi"], "slot": s, "fields": r["f"], "got": r["out"],
                                             "allowed": {texts[x]["tid"]: list(v) for x, v in exps.items()},
                                             "recompiles_in_flight": n_over})
        return overlaps

    def epilogue(self, sc, judged, shared, hist):
        """Quiescent checks run by one thread after all simulated threads finished."""
        texts = sc["texts"]
        n = 0
        for s, ev in enumerate(shared):
            writes = self._writes(sc, judged, hist, s)
            cur = sorted(self._current(writes, 10 ** 18))
            # (a) the evaluator is, as a whole, one of the candidates
            ok_for = []
            obs = None
            for x in cur:
                probes = [f for y in cur for f in texts[y]["panel"]]
                obs = [outcome_of(ev, **f) for f in probes]
                if obs == [outcome_of(judged[x]["ev"], **f) for f in probes]:
                    ok_for.append(x)
            if not ok_for:
                raise Violation("quiescent-state-is-no-completed-recompile",
                                {"slot": s, "candidates": [texts[x]["tid"] for x in cur], "observed": obs[:6],
                                 "why": "with nothing in flight the evaluator behaves like none of the last completed recompiles"})
            # (a') every call issued during the race, issued again now, returns what the evaluator's (single) current text returns
            x0 = ok_for[0]
            seen_f = set()
            for r in hist:
                if r["op"] == "call" and r["s"] == s:
                    key = json.dumps(r["f"], sort_keys=True)
                    if key in seen_f:
                        continue
                    seen_f.add(key)
                    got, exp = outcome_of(ev, **r["f"]), outcome_of(judged[x0]["ev"], **r["f"])
                    if got != exp and all(got != outcome_of(judged[x]["ev"], **r["f"]) for x in ok_for):
                        raise Violation("quiescent-call-differs",
                                        {"slot": s, "serving": texts[x0]["tid"], "fields": r["f"], "got": got, "expected": exp,
                                         "why": "a call first made during the race, repeated with nothing in flight, does not return what the "
                                                "evaluator's current experiment returns sequentially"})
            # (b) a recompile with nothing in flight must take effect
            # Order matters: the first recompile must be to a text the evaluator does NOT currently serve
            # (a stale "already compiled" marker left by the race would make exactly that one a no-op),
            # preferring the other last-completed candidates, then the remaining raced texts, newest first.
            raced = [w[2] for w in writes[1:]]
            order = []
            others = [y for y in cur if y not in ok_for]
            for y in raced[::-1]:
                if y not in ok_for and y not in others:
                    others.append(y)
            if others:
                k = int(sc.get("epi", 0.0) * len(others)) % len(others)
                others = others[k:] + others[:k]
            for x in others + ok_for + cur:
                if x not in order:
                    order.append(x)
            for x in order[:4]:
                o = outcome_of(ev.recompile, texts[x]["text"])
                n += 1
                if o[0] == "raise":
                    raise Violation("quiescent-recompile-raised", {"slot": s, "tid": texts[x]["tid"], "got": o})
                race_fields = [r["f"] for r in hist if r["op"] == "call" and r["s"] == s][:6]
                for f in texts[x]["panel"] + race_fields:
                    got, exp = outcome_of(ev, **f), outcome_of(judged[x]["ev"], **f)
                    if got != exp:
                        raise Violation("quiescent-recompile-ignored",
                                        {"slot": s, "recompiled_to": texts[x]["tid"], "fields": f, "got": got, "expected": exp,
                                         "why": "after the race, with nothing in flight, recompile(X) returned but the evaluator "
                                                "does not behave like X"})
        return n


def warmup(runner):
    sc = {"index": -1, "sched_stream": "warm",
          "texts": [{"tid": "w0", "text": "def w{ splitters: a /* c */ if b > 1 { return \"w0.1.0\" weighted 1 } else { return \"w0.2.0\" weighted 1 } }",
                     "kind": "valid", "note": "", "panel": [{"a": 1, "b": 2}]},
                    {"tid": "w1", "text": "def w{ splitters: a return \"w1.1.0\" weighted 1, \"w1.1.1\" weighted 2 }", "kind": "valid", "note": "",
                     "panel": [{"a": 1}]}],
          "shared": [0], "threads": [[{"op": "recompile", "s": 0, "t": 1}, {"op": "new", "t": 0}], [{"op": "call", "s": 0, "f": {"a": 1, "b": 2}},
                                                                                                   {"op": "recompile", "s": 0, "t": 0}]],
          "policy": {"kind": "bernoulli", "p_line": 0.05, "p_hot": 0.05}}
    for _ in range(2):
        runner.run_here(sc, 0)


# ---------------------------------------------------------------------------
# minimisation
# ---------------------------------------------------------------------------
def _fails(res, vclass):
    return res["result"] == "violation" and res["vclass"] == vclass


def _ddmin_decisions(cur, seed, dec, vclass, runner, tries, cap):
    def fails_with(dd):
        tries[0] += 1
        return _fails(runner.run(cur, seed, decisions=dd), vclass)

    head, body = dec[:1], dec[1:]
    n = 2
    while len(body) >= 2 and tries[0] <= cap:
        chunk = max(1, len(body) // n)
        removed = False
        for i in range(0, len(body), chunk):
            cand = body[:i] + body[i + chunk:]
            if fails_with(head + cand):
                body = cand
                n = max(2, n - 1)
                removed = True
                break
        if not removed:
            if chunk == 1:
                break
            n = min(len(body), n * 2)
    return head + body


def drop_thread_from_decisions(dec, x):
    """The chronological decision list with thread x cut out: (a -> x), (x -> b) becomes (a -> b)."""
    out, i = [], 0
    while i < len(dec):
        d = dec[i]
        if d[2] == x:
            j = i + 1
            if j < len(dec) and dec[j][0] == x:
                nd = [d[0], d[1], dec[j][2]]
                dec = dec[:j] + [nd] + dec[j + 1:]      # re-examine: the new target may be cut out next time round
                i = j
                if nd[0] == nd[2]:
                    i = j + 1
                continue
            i += 1
        elif d[0] == x:
            i += 1
        else:
            out.append(list(d))
            i += 1
    return out


def minimise(sc, seed, res, runner, budget=300):
    """Shrinks a failing (workload, schedule) pair while the same violation class persists:
    1. ddmin over the recorded switch points (exact replays of the same workload);
    2. empty whole threads, then drop single operations - first under the same explicit schedule
       (thread indices are kept, so the keys (thread, n-th decision point) stay meaningful), else under a few fresh seeded schedules;
    3. ddmin over the switch points again; 4. renumber threads."""
    vclass = res["vclass"]
    tries = [0]
    cur = dict(sc)
    dec = [list(d) for d in res["decisions"]]
    dec = _ddmin_decisions(cur, seed, dec, vclass, runner, tries, budget)

    def attempt(cand, fresh=3, use_dec=None):
        tries[0] += 1
        r = runner.run(cand, seed, decisions=use_dec if use_dec is not None else dec)
        if _fails(r, vclass):
            return r["decisions"]
        for k in range(fresh):
            if tries[0] > budget * 2:
                return None
            tries[0] += 1
            r = runner.run(dict(cand, sched_stream="min%d" % k), seed)
            if _fails(r, vclass):
                return _ddmin_decisions(cand, seed, r["decisions"], vclass, runner, tries, budget * 2)
        return None

    for ti in range(len(cur["threads"])):
        if not cur["threads"][ti] or tries[0] > budget * 2:
            continue
        th = [list(x) for x in cur["threads"]]
        th[ti] = []
        d = attempt(dict(cur, threads=th), fresh=1, use_dec=drop_thread_from_decisions(dec, ti))
        if d is not None:
            cur, dec = dict(cur, threads=th), d
    for ti in range(len(cur["threads"])):
        oi = len(cur["threads"][ti]) - 1
        while oi >= 0 and tries[0] <= budget * 2:
            th = [list(x) for x in cur["threads"]]
            del th[ti][oi]
            d = attempt(dict(cur, threads=th))
            if d is not None:
                cur, dec = dict(cur, threads=th), d
            oi -= 1
    dec = _ddmin_decisions(cur, seed, dec, vclass, runner, tries, budget * 3)
    # renumber threads (drop the empty ones)
    keep = [i for i, ops in enumerate(cur["threads"]) if ops]
    canon = runner.run(cur, seed, decisions=dec)
    if _fails(canon, vclass):
        dec = canon["decisions"]           # only decisions that were actually honoured, in chronological order
    if keep and len(keep) < len(cur["threads"]):
        remap = {old: new for new, old in enumerate(keep)}
        cdec = [list(d) for d in dec]
        for x in range(len(cur["threads"])):
            if x not in remap:
                cdec = drop_thread_from_decisions(cdec, x)
        cdec = [[remap[d[0]] if d[0] >= 0 else -1, d[1], remap[d[2]]] for d in cdec if (d[0] < 0 or d[0] in remap) and d[2] in remap]
        if not cdec or cdec[0][0] != -1:
            cdec = [[-1, 0, 0]] + cdec
        cand = dict(cur, threads=[cur["threads"][i] for i in keep])
        tries[0] += 1
        r = runner.run(cand, seed, decisions=cdec)
        if _fails(r, vclass):
            cur, dec = cand, r["decisions"]
    final = runner.run(cur, seed, decisions=dec)
    if not _fails(final, vclass):
        cur, dec = sc, res["decisions"]
        final = runner.run(cur, seed, decisions=dec)
    # the executed schedule is the canonical one (decisions that could not be honoured are gone)
    return cur, final.get("decisions", dec), final, tries[0]


def signature_of(sc, vclass):
    return {"vclass": vclass, "threads": [[op["op"] for op in ops] for ops in sc["threads"]]}


# ---------------------------------------------------------------------------
# worker / replay / master
# ---------------------------------------------------------------------------
def scenario_for(seed, index):
    return gen_scenario(rng_for(PROP, seed, index), index)


def _boot():
    threads.install_locks()
    common.setup_repo_path()
    common.assert_repo_loaded()


def worker(argv):
    a = driver.parse_worker_args(argv)
    out = common.WorkerOut()
    _boot()
    driver.arm_watchdog(a["budget"] * 3 + 300)
    runner = Runner()
    if os.environ.get("VERIF_WARM") == "1":
        warmup(runner)         # default is cold: every forked run starts from a process that has imported the package but never used it
    agg = {"runs": 0, "skipped": 0, "steps": 0, "switches": 0, "hot_points": 0, "overlaps": 0, "epilogue_recompiles": 0,
           "lock_acquire": 0, "lock_blocked": 0, "lock_timeout": 0, "sleep": 0, "parked": 0, "foreign_points": 0, "adopted": 0, "violations": 0, "ops": 0}
    per_policy = {}
    per_threads = {}
    interleavings = set()
    digests = []
    samples = []
    if True:
        for idx in driver.worker_indices(a):
            sc = scenario_for(a["seed"], idx)
            try:
                res = runner.run(sc, a["seed"])
            except HarnessError as e:
                # the run was isolated in a child: report it (the batch will exit 2) and go on
                out.emit({"type": "harness", "error": str(e), "index": idx})
                continue
            if res["result"] == "skip":
                agg["skipped"] += 1
                digests.append([idx, "skip"])
                continue
            agg["runs"] += 1
            info = res["info"]
            for k in ("steps", "switches", "hot_points", "lock_acquire", "lock_blocked", "lock_timeout", "sleep", "parked", "foreign_points", "adopted"):
                agg[k] += info[k]
            agg["overlaps"] += info.get("overlaps", 0)
            agg["epilogue_recompiles"] += info.get("epilogue", 0)
            agg["ops"] += len(res["hist"])
            pk = sc["policy"]["kind"]
            per_policy[pk] = per_policy.get(pk, 0) + 1
            nt = str(len(sc["threads"]))
            per_threads[nt] = per_threads.get(nt, 0) + 1
            if info["switches"] > 0:
                interleavings.add(info["switch_digest"] + info["digest"])
            digests.append([idx, info["digest"] + ":" + common.digest_obj([res["result"], res.get("vclass"), res["hist"]])])
            if res["result"] == "violation":
                agg["violations"] += 1
                if agg["violations"] <= 1:
                    small, dec, final, tries = minimise(sc, a["seed"], res, runner)
                    out.emit({"type": "violation", "index": idx, "vclass": res["vclass"], "scenario": small, "decisions": dec,
                              "detail": final.get("detail"), "hist": final.get("hist"), "minimise_tries": tries,
                              "original": {"threads": len(sc["threads"]), "ops": sum(len(x) for x in sc["threads"]),
                                           "switches": res["info"]["switches"]},
                              "minimised": {"threads": len(small["threads"]), "ops": sum(len(x) for x in small["threads"]),
                                            "switches": max(0, len(dec) - 1)}})
            elif len(samples) < 1 and len(sc["threads"]) == 2 and info["switches"] > 2:
                samples.append({"index": idx, "policy": sc["policy"], "threads": sc["threads"], "shared_initial": [sc["texts"][k]["tid"] for k in sc["shared"]],
                                "texts": [{"tid": t["tid"], "kind": t["kind"], "text": t["text"][:160]} for t in sc["texts"]],
                                "steps": info["steps"], "switches": info["switches"],
                                "first_decisions": res["decisions"][:12],
                                "history": [{k: v for k, v in r.items() if k != "probes"} for r in res["hist"]]})
    out.emit({"type": "summary", "agg": agg, "per_policy": per_policy, "per_threads": per_threads,
              "interleavings": sorted(interleavings), "digests": digests, "samples": samples})
    return 0


def replay(payload):
    _boot()
    runner = Runner()
    if os.environ.get("VERIF_WARM") == "1":
        warmup(runner)
    res = runner.run(payload["scenario"], payload.get("seed", 0), decisions=payload["decisions"])
    if res["result"] == "violation":
        print(f"REPRODUCED property={PROP} class={res['vclass']} steps={res['info']['steps']} switches={res['info']['switches']}")
        print(json.dumps(res["detail"], default=repr)[:2000])
        return 1 if res["vclass"] == payload.get("vclass") else 3
    print("NOT-REPRODUCED", res["result"])
    return 0


def master(tier, seed):
    t0 = time.monotonic()
    budget = float(os.environ.get("VERIF_BUDGET", TIERS[tier]["budget"]))
    agg = {}
    per_policy, per_threads = {}, {}
    interleavings = set()
    samples, viol_recs, harness = [], [], []
    try:
        for rec in common.run_workers("C17", seed, tier, budget, 10 ** 9):
            if rec["type"] == "summary":
                for k, v in rec["agg"].items():
                    agg[k] = agg.get(k, 0) + v
                for k, v in rec["per_policy"].items():
                    per_policy[k] = per_policy.get(k, 0) + v
                for k, v in rec["per_threads"].items():
                    per_threads[k] = per_threads.get(k, 0) + v
                interleavings |= set(rec["interleavings"])
                if len(samples) < 2:
                    samples += rec["samples"][:1]
            elif rec["type"] == "violation":
                viol_recs.append(rec)
            elif rec["type"] == "harness":
                harness.append(f"run {rec['index']}: {rec['error']}")
    except HarnessError as e:
        harness.append(str(e))
    paths, known_hits, seen, unreproduced = [], [], set(), []
    for rec in sorted(viol_recs, key=lambda r: r["index"]):
        sig = signature_of(rec["scenario"], rec["vclass"])
        key = json.dumps(sig, sort_keys=True)
        if key in seen:
            continue
        seen.add(key)
        k = driver.match_known(PROP, sig)
        if k is not None:
            known_hits.append(k.get("what", key))
            continue
        if len(paths) >= MAX_VIOLATIONS_REPORTED:
            continue
        path = common.write_replay(PROP, seed, rec["index"], {"engine": "threads", "vclass": rec["vclass"], "signature": sig,
                                                             "detail": rec["detail"], "scenario": rec["scenario"],
                                                             "decisions": rec["decisions"], "history": rec["hist"],
                                                             "original": rec["original"], "minimised": rec["minimised"],
                                                             "decisions_format": "[thread, its n-th decision point, next thread]; [-1,0,k] = thread k starts"})
        rc, so, se = driver.replay_in_fresh_interpreter(path)
        if rc == 1:
            paths.append(path)
        else:
            # never reported as a violation; only fatal if nothing else reproduces (see driver.finish)
            unreproduced.append(f"replay of {path} in a fresh interpreter did not reproduce (rc={rc}): {so[-200:]} {se[-200:]}")
            try:
                os.replace(path, path + ".unreproduced")
            except OSError:
                pass
    wall = time.monotonic() - t0
    runs = agg.get("runs", 0)
    cov = {
        "evaluations": runs,
        "distinct_nontrivial": len(interleavings),
        "rule": "one evaluation = one seeded schedule of one seeded multi-thread workload (2..16 real threads constructing, recompiling and "
                "calling evaluators, only the baton holder runs; pre-emption at line events in the package / generated code and at opcode "
                "events in experiment_evaluator.py and wraper_functions.py); distinct_nontrivial = distinct (switch-point digest, full "
                "yield-point digest) pairs among runs with at least one context switch, i.e. distinct interleavings actually executed",
        "samples": samples or [{"note": "no two-thread sample with >2 switches in this batch"}],
        "yield_points_executed": agg.get("steps", 0),
        "opcode_level_yield_points": agg.get("hot_points", 0),
        "context_switches": agg.get("switches", 0),
        "operations_executed": agg.get("ops", 0),
        "calls_overlapping_a_recompile": agg.get("overlaps", 0),
        "quiescent_epilogue_recompiles": agg.get("epilogue_recompiles", 0),
        "sim_lock_acquires": agg.get("lock_acquire", 0),
        "sim_lock_blocked": agg.get("lock_blocked", 0),
        "sim_lock_timeouts_fired": agg.get("lock_timeout", 0),
        "sim_sleep_yields": agg.get("sleep", 0),
        "delay_injections_fired": agg.get("parked", 0),
        "yield_points_in_non_package_python_code": agg.get("foreign_points", 0),
        "threads_started_by_the_package_and_adopted": agg.get("adopted", 0),
        "skipped_scenarios": agg.get("skipped", 0),
        "runs_per_policy": per_policy,
        "runs_per_thread_count": per_threads,
        "runs_per_hour": int(runs / wall * 3600) if wall > 0 else 0,
        "seeds": {"VERIF_SEED": seed, "run_indices": "0..%d" % max(0, runs + agg.get("skipped", 0) - 1)},
        "fault_kinds_fired": {"preemption_switch": agg.get("switches", 0), "lock_contention_block": agg.get("lock_blocked", 0),
                              "invalid_text_in_race": "see operations with kind invalid in samples"},
        "simulated_time": "not applicable: no clock or timer in the system; logical yield points are reported",
        "real_components": ["OS threads (parked on locks, one runs at a time)", "pyab_experiment", "pydantic", "generated code"],
        "stubbed_components": ["the OS/GIL scheduler (replaced by seeded baton passing)",
                               "threading.Lock / RLock / Condition / Event / Semaphore, time.sleep, Thread.start / join (simulator-aware)",
                               "sys.stdout/sys.stderr (recording stream)", "the run's disk: private empty HOME / TMPDIR per forked run"],
        "workers": common.n_workers(),
    }
    common.write_evidence(PROP, tier, seed, cov, wall, len(paths),
                          ["pre-emption granularity: line (package, generated code) and opcode (experiment_evaluator.py, wraper_functions.py); "
                           "C extensions and stdlib frames run atomically",
                           "racing clause read liberally: a call overlapping an in-flight recompile may see that text or anything allowed when it began",
                           "sampling, not proof"])
    if runs == 0 and not harness:
        harness.append("no run was executed")
    print(f"C17 {tier}: runs={runs} steps={agg.get('steps', 0)} switches={agg.get('switches', 0)} interleavings={len(interleavings)} "
          f"violations_raw={agg.get('violations', 0)} reported={len(paths)} wall={wall:.1f}s")
    return driver.finish(PROP, paths, known_hits, harness, unreproduced)
