"""Master / worker drivers common to the engines."""

from __future__ import annotations

import faulthandler
import json
import os
import subprocess
import sys
import time

from . import common
from .common import HarnessError, VERIF, PY


def parse_worker_args(argv):
    a = {"seed": 0, "tier": "quick", "first": 0, "stride": 1, "budget": 30.0, "max_runs": 10 ** 9, "indices": None}
    it = iter(argv)
    for tok in it:
        if tok == "--seed":
            a["seed"] = int(next(it))
        elif tok == "--tier":
            a["tier"] = next(it)
        elif tok == "--first":
            a["first"] = int(next(it))
        elif tok == "--stride":
            a["stride"] = int(next(it))
        elif tok == "--budget":
            a["budget"] = float(next(it))
        elif tok == "--max-runs":
            a["max_runs"] = int(next(it))
        elif tok == "--indices":
            a["indices"] = [int(x) for x in next(it).split(",") if x]
        else:
            raise HarnessError("bad worker arg " + tok)
    return a


def worker_indices(a):
    """Run indices of this worker. Wall clock only decides when to stop *starting* runs."""
    if a["indices"] is not None:
        for i in a["indices"]:
            yield i
        return
    t_end = time.monotonic() + a["budget"]
    i = a["first"]
    while i < a["max_runs"] and time.monotonic() < t_end:
        yield i
        i += a["stride"]


def arm_watchdog(seconds):
    faulthandler.enable()
    faulthandler.dump_traceback_later(seconds, exit=True)


def replay_in_fresh_interpreter(path, timeout=300):
    """Replays a file in a fresh interpreter; returns (exit code, stdout)."""
    p = subprocess.run([PY, os.path.join(VERIF, "check"), "replay", path], stdout=subprocess.PIPE, stderr=subprocess.PIPE,
                       env=common.child_env({"PYTHONHASHSEED": "12345"}), cwd=VERIF, timeout=timeout)
    return p.returncode, p.stdout.decode(errors="replace"), p.stderr.decode(errors="replace")


def match_known(prop, signature):
    """Known-finding entry (status 'known') whose signature equals `signature`, else None."""
    for e in common.load_known_findings(prop):
        if e.get("status") == "known" and e.get("signature") == signature:
            return e
    return None


def finish(prop, violations, known_hits, harness_errors, unreproduced=()):
    """Print result lines and return the exit code.
    A candidate violation whose minimised file does not reproduce in a fresh interpreter is never reported as a
    violation. If other violations of the same batch do reproduce it is only noted; if none does, the batch is a
    harness problem (exit 2) that needs a human, never exit 0."""
    for u in unreproduced:
        print(f"NOTE property={prop} unreproduced candidate dropped: {u}", file=sys.stderr)
    if unreproduced and not violations:
        harness_errors = list(harness_errors) + [f"{len(unreproduced)} candidate violation(s) did not reproduce in a fresh interpreter"]
    for k in known_hits:
        print(f"KNOWN-FINDING: property={prop} {k}")
    for path in violations:
        print(f"VIOLATION property={prop} replay={path}")
    for h in harness_errors:
        print(f"HARNESS-ERROR property={prop} {h}", file=sys.stderr)
    if harness_errors:
        return 2
    if violations:
        return 1
    return 0
