"""C17 engine: seeded deterministic thread scheduler (DESIGN.md section 5).

Real OS threads execute the real package, but only the thread that holds the baton runs.
Pre-emption points are `line` events (package + generated code) and `opcode` events
(experiment_evaluator.py, wraper_functions.py) delivered by sys.settrace, plus operation
invoke/return and simulated-lock acquire/release. At each point the chooser (PRNG, or an explicit
recorded schedule on replay) decides who runs next. One seed = one exactly repeatable interleaving.
"""

from __future__ import annotations

import _thread
import os
import sys
import threading
import time

from .common import HarnessError, repo_src


class SimDeadlock(BaseException):
    """A blocking acquire that can never succeed: the lock is held and no other thread exists that could release it
    (single-threaded harness context). BaseException so that it is never mistaken for an error raised by the program."""


class Abort(BaseException):
    """Unwinds a simulated thread (step cap, deadlock, teardown). Never a program-visible error."""


NEW, RUNNABLE, BLOCKED, DONE = "new", "runnable", "blocked", "done"
FAIRNESS_BOUND = 300_000     # consecutive yield points one thread may run while others are runnable

HOT_FILES = ("experiment_evaluator.py", "wraper_functions.py")
_HARNESS_DIR = os.path.dirname(os.path.abspath(__file__)) + os.sep
_REAL_LOCK_MODULES = ("threading.py", "_threading_local.py", "tempfile.py", "queue.py", "sched.py", "socket.py", "selectors.py",
                      "subprocess.py", "zipimport.py", "pkgutil.py", "runpy.py", "_pyio.py", "reprlib.py", "functools.py", "random.py",
                      "socketserver.py", "ssl.py", "mailbox.py", "shelve.py", "dbm", "sqlite3")
_REAL_LOCK_PACKAGES = ("logging", "concurrent", "multiprocessing", "asyncio", "importlib", "unittest", "http", "urllib", "email", "xml")


def _holds_real_locks(fn):
    parts = fn.replace("\\", "/").split("/")
    return parts[-1] in _REAL_LOCK_MODULES or any(p in _REAL_LOCK_PACKAGES for p in parts[-4:-1])


_IO_MODULES = ("pathlib.py", "shutil.py", "os.py", "genericpath.py", "posixpath.py", "glob.py", "fnmatch.py", "pickle.py", "json", "csv.py",
               "configparser.py", "zipfile.py", "gzip.py", "tarfile.py", "fileinput.py", "filecmp.py", "stat.py", "marshal.py", "copyreg.py")
FOREIGN_POINT_BUDGET = 300_000   # per run: beyond this, foreign (non-package) frames run atomically again
_ACTIVE = None          # the Scheduler currently running (one per process at a time)
SINGLE_THREADED = True  # outside a simulation the harness processes have exactly one thread
_MAIN_IDENT = _thread.get_ident()
_real_allocate = _thread.allocate_lock


# ---------------------------------------------------------------------------
# simulator-aware locks
# ---------------------------------------------------------------------------
class SimLock:
    """threading.Lock replacement. Outside a simulation (or on a thread the simulator does not own)
    it is a plain lock; inside, a blocked acquire parks the thread and yields to the scheduler."""

    _reentrant = False

    def __init__(self):
        self._real = _real_allocate()
        self._owner = None
        self._count = 0

    def _me(self):
        s = _ACTIVE
        if s is None:
            return None, None
        return s, s.by_ident.get(_thread.get_ident())

    def acquire(self, blocking=True, timeout=-1):
        s, t = self._me()
        if t is None:
            if self._reentrant and self._owner == _thread.get_ident():
                self._count += 1
                return True
            ok = self._real.acquire(False)
            if not ok:
                if not blocking or (timeout is not None and timeout >= 0):
                    return False              # a timed acquire gives up (no other thread will ever release it)
                if SINGLE_THREADED and _thread.get_ident() == _MAIN_IDENT and _ACTIVE is None:
                    raise SimDeadlock("blocking acquire of a lock that is held, with no other thread to release it")
                # a real thread the package started on its own (not owned by the simulator): wait for real
                ok = self._real.acquire(blocking, timeout)
            if ok:
                self._owner = _thread.get_ident()
                self._count = 1
            return ok
        if self._reentrant and self._owner == _thread.get_ident():
            self._count += 1
            return True
        s.stats["lock_acquire"] = s.stats.get("lock_acquire", 0) + 1
        s.yield_point(t, 3, 7001, 0)
        timed = blocking and timeout is not None and timeout >= 0
        while True:
            if self._real.acquire(False):
                self._owner = _thread.get_ident()
                self._count = 1
                return True
            if not blocking or (timed and timeout == 0):
                return False
            s.stats["lock_blocked"] = s.stats.get("lock_blocked", 0) + 1
            if not s.block(t, self, timed):
                s.stats["lock_timeout"] = s.stats.get("lock_timeout", 0) + 1
                return False                      # simulated time-out (fires only when nothing else can run)

    def release(self):
        s, t = self._me()
        if self._reentrant:
            if self._owner != _thread.get_ident():
                raise RuntimeError("cannot release un-acquired lock")
            self._count -= 1
            if self._count:
                return
        self._owner = None
        self._real.release()
        if t is not None:
            s.unblock(self)
            s.yield_point(t, 3, 7002, 0)

    def locked(self):
        return self._real.locked()

    def __enter__(self):
        self.acquire()
        return True

    def __exit__(self, *a):
        self.release()

    def _at_fork_reinit(self):
        self._real = _real_allocate()
        self._owner = None
        self._count = 0


class SimRLock(SimLock):
    _reentrant = True

    def _is_owned(self):
        return self._owner == _thread.get_ident()

    # threading.Condition protocol
    def _release_save(self):
        c, o = self._count, self._owner
        self._count = 1
        self.release()
        return (c, o)

    def _acquire_restore(self, st):
        self.acquire()
        self._count, self._owner = st


def sim_sleep(seconds):
    """time.sleep on a simulated thread: no real waiting, but a point where another thread is preferred."""
    s = _ACTIVE
    t = s.by_ident.get(_thread.get_ident()) if s is not None else None
    if t is None:
        return _real_sleep(seconds)
    s.stats["sleep"] = s.stats.get("sleep", 0) + 1
    s.yield_point(t, 4, 7003, 0)


_real_sleep = time.sleep


_orig_thread_start = threading.Thread.start
_orig_thread_join = threading.Thread.join
_orig_thread_is_alive = threading.Thread.is_alive


def _thread_start(self):
    """threading.Thread.start: a thread that the package starts from a simulated thread while a simulation is running becomes
    a simulated thread itself (the scheduler decides when it runs). Anywhere else the thread starts for real - and from then on
    the harness no longer assumes it is alone in the process."""
    global SINGLE_THREADED
    s = _ACTIVE
    if s is not None and not s.finished and _thread.get_ident() in s.by_ident:
        s.adopt(self)
        return None
    SINGLE_THREADED = False
    return _orig_thread_start(self)


def _thread_join(self, timeout=None):
    t = getattr(self, "_sim_thread", None)
    if t is None:
        return _orig_thread_join(self, timeout)
    s = _ACTIVE
    cur = s.by_ident.get(_thread.get_ident()) if s is not None else None
    n = 0
    while t.state != DONE and cur is not None and not s.finished:
        s.yield_point(cur, 4, 7004, 0)          # like a sleep: lets others (the joined thread) run
        n += 1
        if timeout is not None and n > 200:
            break
    return None


def _thread_is_alive(self):
    t = getattr(self, "_sim_thread", None)
    if t is None:
        return _orig_thread_is_alive(self)
    return t.state != DONE


def install_locks():
    """Must run before `pyab_experiment` is imported (covers `from threading import Lock` too).
    threading.Condition / Event / Semaphore build on these names, so they become simulator-aware as well."""
    threading.Lock = SimLock
    threading._allocate_lock = SimLock
    threading.RLock = SimRLock
    time.sleep = sim_sleep
    threading.Thread.start = _thread_start
    threading.Thread.join = _thread_join
    threading.Thread.is_alive = _thread_is_alive


# ---------------------------------------------------------------------------
# frame classification
# ---------------------------------------------------------------------------
class FrameClasses:
    """0 = not a pre-emption frame, 1 = line granularity (vendored sly), 2 = instruction granularity, hot (experiment_evaluator.py,
    wraper_functions.py), 5 = generated code (line granularity, hot), 6 = instruction granularity, ordinary (every other module of
    the package: a check-then-act written on ONE source line can still be split)."""

    def __init__(self):
        self.pkg = os.path.join(repo_src(), "pyab_experiment") + os.sep
        self.cache = {}

    def classify(self, code):
        # keyed by id(): hashing a code object hashes its bytecode and constants on every lookup.
        # The code object is kept alive inside the entry, so its id cannot be reused.
        r = self.cache.get(id(code))
        if r is None:
            fn = code.co_filename
            if fn == "<string>":
                cls = 5                      # generated code: few lines per call, each one a "hot" line point
            elif fn.startswith(self.pkg):
                base = os.path.basename(fn)
                if base in HOT_FILES:
                    cls = 2
                elif fn.startswith(self.pkg + "sly" + os.sep):
                    cls = 1
                else:
                    cls = 6
            elif (fn.startswith(_HARNESS_DIR) or fn.startswith("<frozen") or "importlib" in fn or fn.startswith("<")
                  or not fn.endswith(".py") or _holds_real_locks(fn)):
                cls = 0                      # the harness itself, the import system, synthetic code, modules that guard Python-level
                #                              critical sections with REAL locks (parking a thread inside one would block the process)
            elif os.path.basename(fn) in _IO_MODULES or os.path.basename(os.path.dirname(fn)) in _IO_MODULES:
                cls = 5                      # file-system / serialisation helpers: every line is a hot point (I/O windows are where
                #                              concurrent readers see half-written state); nothing of this runs on the pinned tree
            else:
                cls = 7                      # any other Python code a simulated thread runs into (stdlib, third party): line granularity
            h = 0
            for ch in f"{os.path.basename(fn)}:{code.co_name}:{code.co_firstlineno}":
                h = (h * 131 + ord(ch)) % 1000003
            r = (cls, h, code)
            self.cache[id(code)] = r
        return r


# ---------------------------------------------------------------------------
# instruction-level pre-emption in the publish / check-then-act files
# ---------------------------------------------------------------------------
_HOT_TOOL = 4
_hot_installed = []
HOT_COUNT = [0]


def _code_objects_of(module, filename):
    import types

    seen, out, todo = set(), [], []

    def add_fn(f):
        f = getattr(f, "__func__", f)
        if isinstance(f, property):
            for g in (f.fget, f.fset, f.fdel):
                if g is not None:
                    add_fn(g)
            return
        f = getattr(f, "__wrapped__", f)
        c = getattr(f, "__code__", None)
        if isinstance(c, types.CodeType):
            todo.append(c)

    for v in list(vars(module).values()):
        if isinstance(v, type):
            for w in list(vars(v).values()):
                add_fn(w)
        else:
            add_fn(v)
    while todo:
        c = todo.pop()
        if id(c) in seen or c.co_filename != filename:
            continue
        seen.add(id(c))
        out.append(c)
        todo.extend(k for k in c.co_consts if isinstance(k, types.CodeType))
    return out


def install_hot_instrumentation(fc):
    """Every bytecode instruction of the functions defined in experiment_evaluator.py / wraper_functions.py becomes a
    pre-emption point (sys.monitoring INSTRUCTION events enabled locally on those code objects only; using
    frame.f_trace_opcodes instead would switch instruction events on for the whole process in CPython 3.12)."""
    import importlib

    if _hot_installed:
        return _hot_installed
    mon = sys.monitoring
    mon.use_tool_id(_HOT_TOOL, "pyab-sim")
    for modname in ("pyab_experiment.experiment_evaluator", "pyab_experiment.utils.wraper_functions"):
        importlib.import_module(modname)
    pkg = os.path.join(repo_src(), "pyab_experiment") + os.sep
    for modname, mod in sorted(sys.modules.items()):
        fn = getattr(mod, "__file__", None) or ""
        if not modname.startswith("pyab_experiment") or not fn.startswith(pkg) or fn.startswith(pkg + "sly" + os.sep):
            continue
        for code in _code_objects_of(mod, fn):
            mon.set_local_events(_HOT_TOOL, code, mon.events.INSTRUCTION)
            _hot_installed.append(code)
    classify = fc.classify
    get_ident = _thread.get_ident

    def on_instruction(code, offset):
        s = _ACTIVE
        if s is None:
            if classify(code)[0] == 2:
                HOT_COUNT[0] += 1      # sequential phases: lets the harness measure how many hot points an operation has
            return
        t = s.by_ident.get(get_ident())
        if t is None:
            return
        c = classify(code)
        s.yield_point(t, c[0], c[1], offset)

    mon.register_callback(_HOT_TOOL, mon.events.INSTRUCTION, on_instruction)
    return _hot_installed


def instrument_sly():
    """Called inside the forked child of a 'deep' run: every bytecode instruction of the vendored sly package becomes a
    pre-emption point too (about 8x more points per compile, so only a fraction of the runs, with small texts, does this)."""
    import importlib

    mon = sys.monitoring
    pkg = os.path.join(repo_src(), "pyab_experiment", "sly") + os.sep
    n = 0
    for modname in ("pyab_experiment.sly.lex", "pyab_experiment.sly.yacc"):
        mod = importlib.import_module(modname)
        fn = getattr(mod, "__file__", "")
        if not fn.startswith(pkg):
            continue
        for code in _code_objects_of(mod, fn):
            mon.set_local_events(_HOT_TOOL, code, mon.events.INSTRUCTION)
            n += 1
    return n


# ---------------------------------------------------------------------------
# choosers
# ---------------------------------------------------------------------------
# Point classes: 1 = line event, 2 = opcode event in a publish/check-then-act file, 3 = operation boundary or
# simulated-lock operation, 4 = sleep. The scheduler counts points per class; a chooser is consulted only when
# the count of the point's class reaches the threshold it armed (`next_at`), so the common path is a few
# integer operations. Thresholds are drawn from the PRNG (geometric gaps = Bernoulli switching per point).
INF = 1 << 62


def _geometric(rng, p):
    """Number of Bernoulli(p) trials up to and including the first success."""
    if p <= 0.0:
        return INF
    if p >= 1.0:
        return 1
    import math

    u = rng.random()
    return int(math.log(1.0 - u) / math.log(1.0 - p)) + 1


class BernoulliChooser:
    """Switch with probability p_line at line points and p_hot at opcode points (p_line == p_hot: plain Bernoulli;
    p_hot >> p_line: 'targeted' at the publish / check-then-act code)."""

    merge_hot = False

    def __init__(self, rng, p_line, p_hot, p_boundary=0.3):
        self.rng = rng
        self.p = {1: p_line, 2: p_hot, 3: p_boundary, 4: 1.0, 5: p_hot}

    def arm(self, sched, cls):
        sched.next_at[cls] = sched.cnt[cls] + _geometric(self.rng, self.p[cls])

    def start(self, sched):
        for cls in (1, 2, 3, 4, 5):
            self.arm(sched, cls)

    def pick(self, sched, t, cls):
        self.arm(sched, cls)
        others = [x for x in sched.threads if x.state == RUNNABLE and x is not t]
        if not others:
            return None
        return others[self.rng.randrange(len(others))]

    def pick_forced(self, sched, runnable):
        return runnable[self.rng.randrange(len(runnable))]


class ParkChooser(BernoulliChooser):
    """Delay injection: one PRNG-chosen 'victim' thread is parked at its k-th hot point (an instruction of the
    publish / check-then-act code, or a line of generated code) and stays parked until other threads have completed
    `need` whole operations (or nothing else can run). Everything else follows a sparse Bernoulli policy.
    Aimed at windows that only matter if another thread gets a complete operation done inside them."""

    def __init__(self, rng, n_threads, p_line, p_hot, k_max=160, need=1, late=None, rearm=0):
        super().__init__(rng, p_line, p_hot)
        self.n_threads = n_threads
        self.rearm = rearm        # > 0: after a parked thread went on, another victim is parked 1..rearm hot points later, and so on
        self.victim = rng.randrange(n_threads)
        self.k = rng.randint(1, k_max)
        if late is not None:
            # 'late' mode: park shortly before the end of one of the victim's operations (where results are published);
            # late = (per-thread list of estimated cumulative hot-point counts at each operation's end, how far back)
            ends, back = late
            e = ends[self.victim]
            if e:
                self.k = max(1, e[rng.randrange(len(e))] - back)
        self.need = need
        self.seen = 0
        self.held = None          # [thread idx, operations completed by others since]
        self.fired = False

    def start(self, sched):
        super().start(sched)
        sched.next_at[2] = 1      # look at every hot point until the victim has been parked
        sched.next_at[5] = 1

    def _again(self, sched):
        if self.rearm:
            self.fired = False
            self.seen = 0
            self.victim = self.rng.randrange(self.n_threads)
            self.k = self.rng.randint(1, self.rearm)
            sched.next_at[2] = sched.cnt[2] + 1
            sched.next_at[5] = sched.cnt[5] + 1

    def _others(self, sched, t):
        h = self.held[0] if self.held else -1
        return [x for x in sched.threads if x.state == RUNNABLE and x is not t and x.idx != h]

    def pick(self, sched, t, cls):
        if self.held is not None and cls == 3 and sched.last_code_h == 9002 and t.idx != self.held[0]:
            self.held[1] += 1
            if self.held[1] >= self.need:
                v = sched.threads[self.held[0]]
                self.held = None
                self.arm(sched, cls)
                self._again(sched)
                if v.state == RUNNABLE:
                    return v               # the parked thread resumes right after the other operation completed
        if not self.fired and cls in (2, 5) and t.idx == self.victim:
            self.seen += 1
            if self.seen >= self.k:
                self.fired = True
                self.arm(sched, 2)
                self.arm(sched, 5)
                others = self._others(sched, t)
                if others:
                    self.held = [t.idx, 0]
                    sched.stats["parked"] = sched.stats.get("parked", 0) + 1
                    return others[self.rng.randrange(len(others))]
                return None
            sched.next_at[cls] = sched.cnt[cls] + 1
            return None
        if not self.fired and cls in (2, 5):
            # not the victim: decide by the sparse policy but keep looking at every hot point
            sched.next_at[cls] = sched.cnt[cls] + 1
            if self.rng.random() >= self.p[cls]:
                return None
        else:
            self.arm(sched, cls)
        others = self._others(sched, t)
        if not others:
            return None
        return others[self.rng.randrange(len(others))]

    def pick_forced(self, sched, runnable):
        h = self.held[0] if self.held else -1
        free = [x for x in runnable if x.idx != h]
        if not free:
            self.held = None              # nothing else can run: the parked thread goes on
            self._again(sched)
            free = runnable
        return free[self.rng.randrange(len(free))]


class PCTChooser:
    """Priority scheduling with d change points (Burckhardt et al.), adapted to yield points: the runnable thread
    with the highest priority runs; at each of d PRNG-chosen points the running thread drops below everybody."""

    merge_hot = True      # opcode points count as line points: change points are positions in one stream

    def __init__(self, rng, n_threads, est_steps, d):
        self.rng = rng
        self.prio = list(range(n_threads))
        rng.shuffle(self.prio)
        self.change = sorted(rng.randrange(1, max(2, est_steps)) for _ in range(d))
        self.low = -1

    def on_adopt(self, t):
        self.prio.append(self.low)        # a thread started later runs behind everybody until a change point says otherwise
        self.low -= 1

    def _best(self, cand):
        return max(cand, key=lambda x: self.prio[x.idx])

    def start(self, sched):
        sched.next_at[1] = self.change[0] if self.change else INF
        sched.next_at[2] = INF
        sched.next_at[3] = 1
        sched.next_at[4] = 1
        sched.next_at[5] = INF

    def pick(self, sched, t, cls):
        if cls == 1:
            while self.change and sched.cnt[1] >= self.change[0]:
                self.change.pop(0)
            sched.next_at[1] = self.change[0] if self.change else INF
            self.prio[t.idx] = self.low
            self.low -= 1
        else:
            sched.next_at[cls] = sched.cnt[cls] + 1
            if cls == 4:
                self.prio[t.idx] = self.low     # a sleeper lets the others go first
                self.low -= 1
        cand = [x for x in sched.threads if x.state == RUNNABLE]
        b = self._best(cand)
        return None if b is t else b

    def pick_forced(self, sched, runnable):
        return self._best(runnable)


class ReplayChooser:
    """Explicit schedule: {(thread, its n-th decision point): next thread}."""

    merge_hot = False
    is_replay = True

    def __init__(self, decisions):
        self.dec = {(d[0], d[1]): d[2] for d in decisions}
        self.by_thread = {}
        for d in decisions:
            self.by_thread.setdefault(d[0], {})[d[1]] = d[2]

    def start(self, sched):
        for cls in (1, 2, 3, 4, 5):
            sched.next_at[cls] = INF
        for t in sched.threads:
            t.replay = self.by_thread.get(t.idx, {})

    def pick(self, sched, t, cls):
        to = t.replay.get(t.ycount)
        if to is None or to == t.idx:
            return None
        x = sched.threads[to]
        return x if x.state == RUNNABLE else None

    def pick_forced(self, sched, runnable):
        t = sched.current
        to = self.dec.get((t.idx, t.ycount))
        if to is not None:
            x = sched.threads[to]
            if x in runnable:
                return x
        return runnable[0]


# ---------------------------------------------------------------------------
# scheduler
# ---------------------------------------------------------------------------
class SimThread:
    __slots__ = ("idx", "gate", "state", "ycount", "body", "blocked_on", "error", "ident", "timed", "timed_out", "replay", "daemon",
                 "adopted")

    def __init__(self, idx, body):
        self.idx = idx
        self.gate = _real_allocate()
        self.gate.acquire()
        self.state = NEW
        self.ycount = 0
        self.body = body
        self.blocked_on = None
        self.error = None
        self.ident = None
        self.timed = False
        self.timed_out = False
        self.replay = None
        self.daemon = False       # a thread the PACKAGE started (threading.Thread(daemon=True)): the run does not wait for it
        self.adopted = None       # the threading.Thread object, for threads the package started during the simulation


class Scheduler:
    def __init__(self, bodies, chooser, fc, step_cap=2_000_000, wall_cap=180.0):
        self.threads = [SimThread(i, b) for i, b in enumerate(bodies)]
        self.chooser = chooser
        self.is_replay = getattr(chooser, "is_replay", False)
        self.merge_hot = chooser.merge_hot
        self.fc = fc
        self.step = 0
        self.step_cap = step_cap
        self.wall_cap = wall_cap
        self.current = None
        self.decisions = []
        self.digest = 0
        self.switches = 0
        self.switch_digest = 0
        self.abort = None
        self.deadlock = None
        self.by_ident = {}
        self.main_gate = _real_allocate()
        self.main_gate.acquire()
        self.stats = {}
        self.hot_points = 0
        self.all_hot = False
        self.cnt = [0, 0, 0, 0, 0, 0, 0]
        self.next_at = [INF, INF, INF, INF, INF, INF, INF]
        self.last_code_h = 0
        self.foreign_points = 0
        self.finished = False
        self.adopted_count = 0
        self.fair_at = FAIRNESS_BOUND

    # -- called on the simulated threads ----------------------------------------
    def adopt(self, thread_obj):
        """A threading.Thread started by the package on a simulated thread: owned by the scheduler from now on."""
        def body(sched, st, thread_obj=thread_obj):
            try:
                thread_obj.run()
            except Abort:
                raise
            except Exception:  # noqa: BLE001 - an exception ends a real thread too (after printing); it is not a harness error
                pass

        t = SimThread(len(self.threads), body)
        t.daemon = bool(thread_obj.daemon)
        t.adopted = thread_obj
        t.state = RUNNABLE
        thread_obj._sim_thread = t
        try:
            thread_obj._started.set()
        except Exception:  # noqa: BLE001
            pass
        self.threads.append(t)
        self.adopted_count += 1
        if hasattr(self.chooser, "on_adopt"):
            self.chooser.on_adopt(t)
        if self.is_replay:
            t.replay = self.chooser.by_thread.get(t.idx, {})
        _thread.start_new_thread(self._thread_main, (t,))
        return t

    def _all_foreground_done(self):
        return all(x.state == DONE for x in self.threads if not x.daemon)

    def _finish(self):
        """All threads the workload started are done. Threads the package started as daemons are let go: they continue as
        ordinary real threads (the scheduler steps aside), as they would when a program's main work is over."""
        global SINGLE_THREADED
        self.finished = True
        alive = [x for x in self.threads if x.daemon and x.state != DONE]
        if alive:
            SINGLE_THREADED = False
        self.main_gate.release()
        for x in alive:
            try:
                x.gate.release()
            except RuntimeError:
                pass

    def yield_point(self, t, cls, code_h, pos):
        if self.finished:
            return
        if self.abort is not None:
            if t.state != DONE and self.current is t:
                raise Abort(self.abort)
            return
        step = self.step = self.step + 1
        n = t.ycount = t.ycount + 1
        self.digest = hash((self.digest, t.idx, code_h, pos))
        if cls == 2 or cls == 5:
            self.hot_points += 1
            if self.merge_hot:
                cls = 1
        elif cls == 6:
            if self.all_hot:
                self.hot_points += 1
                cls = 1 if self.merge_hot else 2     # call-only workloads: every package instruction is a place worth parking at
            else:
                cls = 1                  # ordinary package code: finer points, same switching policy as line points
        elif cls == 7:
            self.foreign_points += 1
            cls = 1
        elif cls == 3:
            self.last_code_h = code_h
        c = self.cnt[cls] = self.cnt[cls] + 1
        if self.is_replay:
            if n not in t.replay:
                if step > self.step_cap:
                    self.abort = "step cap exceeded"
                    raise Abort(self.abort)
                return
        elif c < self.next_at[cls] and step < self.fair_at:
            return
        if step > self.step_cap:
            self.abort = "step cap exceeded"
            raise Abort(self.abort)
        if step >= self.fair_at and not self.is_replay and c < self.next_at[cls]:
            # one thread ran very long (a spin-wait?): somebody else goes first
            others = [x for x in self.threads if x.state == RUNNABLE and x is not t]
            self.fair_at = step + FAIRNESS_BOUND
            to = self.chooser.pick_forced(self, others) if others else None
        else:
            to = self.chooser.pick(self, t, cls)
        if to is not None and to is not t:
            self._switch(t, to)

    def _switch(self, t, to):
        self.decisions.append((t.idx, t.ycount, to.idx))
        self.switches += 1
        self.switch_digest = hash((self.switch_digest, self.digest, to.idx))
        self.fair_at = self.step + FAIRNESS_BOUND
        self.current = to
        to.gate.release()
        t.gate.acquire()
        if self.finished:
            return
        if self.abort is not None:
            raise Abort(self.abort)

    def block(self, t, lock, timed=False):
        """Current thread cannot take `lock`: park it until somebody releases the lock.
        Returns True when woken by a release, False when a (simulated) time-out fired."""
        if self.abort is not None:
            raise Abort(self.abort)
        t.ycount += 1
        t.state = BLOCKED
        t.blocked_on = lock
        t.timed = timed
        t.timed_out = False
        if self.finished:
            t.state = RUNNABLE
            _real_sleep(0.001)            # the simulation is over: this is an ordinary thread now, polling a real lock
            return True
        runnable = [x for x in self.threads if x.state == RUNNABLE]
        if not runnable:
            if not self._fire_timeout():
                if self._all_foreground_done():
                    # only daemon threads of the package are left, all waiting: the run is over, not deadlocked
                    t.state = RUNNABLE
                    self._finish()
                    t.gate.acquire()
                    return True
                self.deadlock = {"blocked": [x.idx for x in self.threads if x.state == BLOCKED and not x.daemon]}
                self.abort = "deadlock"
                t.state = RUNNABLE
                raise Abort(self.abort)
            runnable = [x for x in self.threads if x.state == RUNNABLE]
        if runnable == [t]:
            return not t.timed_out
        to = self.chooser.pick_forced(self, [x for x in runnable if x is not t] or runnable)
        if to is not t:
            self._switch(t, to)
        return not t.timed_out

    def _fire_timeout(self):
        """Nothing can run: simulated time jumps to the earliest pending lock time-out (lowest thread index)."""
        for x in self.threads:
            if x.state == BLOCKED and x.timed:
                x.state = RUNNABLE
                x.blocked_on = None
                x.timed_out = True
                return True
        return False

    def unblock(self, lock):
        for x in self.threads:
            if x.state == BLOCKED and x.blocked_on is lock:
                x.state = RUNNABLE
                x.blocked_on = None

    def _thread_main(self, t):
        t.gate.acquire()                      # wait for the baton
        t.ident = _thread.get_ident()
        self.by_ident[t.ident] = t
        if self.abort is None:
            tracer = self._make_tracer(t)
            sys.settrace(tracer)
            try:
                t.body(self, t)
            except Abort:
                pass
            except BaseException as e:  # noqa: BLE001 - a harness problem, reported as such
                t.error = repr(e)
                if self.abort is None:
                    self.abort = "thread body raised " + repr(e)
            finally:
                sys.settrace(None)
        self._thread_done(t)

    def _thread_done(self, t):
        t.ycount += 1
        t.state = DONE
        self.by_ident.pop(t.ident, None)
        if self.abort is not None:
            # unwind everybody else, one at a time
            for x in self.threads:
                if x.state != DONE:
                    self.current = x
                    x.gate.release()
                    return
            self.main_gate.release()
            return
        if self.finished:
            return
        if self._all_foreground_done():
            self._finish()
            return
        runnable = [x for x in self.threads if x.state == RUNNABLE]
        if runnable:
            self.current = t
            to = self.chooser.pick_forced(self, runnable)
            self.decisions.append((t.idx, t.ycount, to.idx))
            self.current = to
            to.gate.release()
            return
        blocked = [x for x in self.threads if x.state == BLOCKED]
        if blocked and self._fire_timeout():
            to = [x for x in self.threads if x.state == RUNNABLE][0]
            self.decisions.append((t.idx, t.ycount, to.idx))
            self.current = to
            to.gate.release()
            return
        if blocked:
            self.deadlock = {"blocked": [x.idx for x in blocked if not x.daemon]}
            self.abort = "deadlock"
            self.current = blocked[0]
            blocked[0].gate.release()
            return
        self._finish()

    def _make_tracer(self, t):
        classify = self.fc.classify
        yp = self.yield_point

        def local_line(frame, event, arg):
            if event == "line":
                yp(t, 1, classify(frame.f_code)[1], frame.f_lasti)
            return local_line

        def local_gen(frame, event, arg):
            if event == "line":
                yp(t, 5, classify(frame.f_code)[1], frame.f_lasti)
            return local_gen

        def local_foreign(frame, event, arg):
            if event == "line":
                yp(t, 7, classify(frame.f_code)[1], frame.f_lasti)
            return local_foreign

        def global_trace(frame, event, arg):
            # class 2 / 6 frames are pre-empted per instruction through sys.monitoring (install_hot_instrumentation)
            c = classify(frame.f_code)[0]
            if c == 1:
                return local_line
            if c == 5:
                return local_gen
            if c == 7 and self.foreign_points < FOREIGN_POINT_BUDGET:
                # only code the PACKAGE runs into: walking up, a package frame must come before any harness frame
                # (the scheduler itself calls into random.py and must never be pre-empted inside its own decisions)
                f = frame.f_back
                while f is not None:
                    fc = classify(f.f_code)[0]
                    if fc == 2:
                        return local_gen      # reached from the publish / check-then-act code: part of that window, hot
                    if fc in (1, 5, 6):
                        return local_foreign
                    if fc == 0 and f.f_code.co_filename.startswith(_HARNESS_DIR):
                        return None
                    f = f.f_back
            return None

        return global_trace

    # -- called on the main thread -------------------------------------------------
    def run(self):
        global _ACTIVE
        if _ACTIVE is not None:
            raise HarnessError("nested simulation")
        _ACTIVE = self
        try:
            for t in self.threads:
                t.state = RUNNABLE
                _thread.start_new_thread(self._thread_main, (t,))
            self.chooser.start(self)
            first = self.chooser.pick_forced(self, list(self.threads)) if not self.is_replay \
                else self.threads[self.chooser.dec.get((-1, 0), 0)]
            self.decisions.append((-1, 0, first.idx))
            self.current = first
            first.gate.release()
            if not self.main_gate.acquire(True, self.wall_cap):
                self.abort = self.abort or "wall cap exceeded"
                raise HarnessError("simulation exceeded wall cap %.0fs at step %d (process state is unsafe)" % (self.wall_cap, self.step))
            errs = [t.error for t in self.threads if t.error]
            if errs:
                raise HarnessError("simulated thread body raised: " + "; ".join(errs))
            if self.abort == "step cap exceeded":
                raise HarnessError("step cap exceeded (%d)" % self.step_cap)
        finally:
            _ACTIVE = None
        return self
