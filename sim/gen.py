"""Seeded workload generator shared by the three simulators (DESIGN.md section 2).

Everything here is a pure function of the `random.Random` instance handed in.
No wall clock, no `hash()`, no set iteration order: the same PRNG state gives the
same programs, invalid texts and field values in every interpreter.
"""

from __future__ import annotations

# ---------------------------------------------------------------------------
# identifier pools
# ---------------------------------------------------------------------------
PLAIN_IDS = [
    "uid", "user_id", "country", "age", "plan", "f1", "f2", "x", "y", "k",
    "Region", "_seg", "tier", "device", "score", "cohort", "lang", "B", "my_fld",
    "my_fld_1", "zone", "bucket_key",
]
CASE_PAIRS = [("userId", "userid"), ("Region", "region"), ("B", "b"), ("UID", "uid"), ("Zone", "zone")]
# identifiers that merely *begin* with a keyword (C07 territory): harmless here,
# the oracles are relative, such a text is simply whatever the tree says it is.
KEYWORD_PREFIX_IDS = ["order_id", "index", "android", "notify", "iffy", "returned", "salty"]
PY_RESERVED = ["class", "lambda", "None", "True", "import", "pass"]
EXP_NAMES = ["exp_a", "exp_b", "checkout_test", "exp_a", "ranking_v2", "E", "exp_a"]
# legal experiment names that coincide with names the implementation uses itself (run-time helpers of the generated code,
# attributes and methods of the evaluator): harmless on a correct tree, a trap for shared namespaces and attribute aliasing
RESERVED_LOOKING_NAMES = ["partial", "deterministic_choice", "choose_experiment_variant", "ExperimentConditionalFailedError", "map", "str",
                          "recompile", "run_experiment", "_recompile_lock", "_checksum", "kwargs", "self", "code_holder", "fn_name"]

STR_VALUES = ["a", "b", "c", "xyz", "", "0", "42", "u-1001", "josé", "日本", "A" * 300,
              "it's", "q\"q", "back\\slash", "new\nline", "nul\x00byte", " ", "1e5", "inf",
              "a\x00", "a ", "jos\u00e9", "jose\u0301", "0.3", "9007199254740992", "B" * 70000]
INT_VALUES = [0, 1, -1, 2, 3, 4, 5, 6, 7, 10, 17, 18, 19, 100, -100, 2 ** 31, 2 ** 53, 2 ** 53 + 1, 2 ** 64 + 3, -(2 ** 63), 10 ** 16]
# an int too long for int<->str conversion under the interpreter's default limit (4300 digits); written as a marker so that
# scenarios stay JSON-serialisable, expanded by `expand_values` right before the call
HUGE_INT_MARKER = {"$pow10": 5000}


def expand_values(fields):
    """{"$pow10": n} -> 10**n (recursively over dicts / lists)."""
    if isinstance(fields, dict):
        if set(fields) == {"$pow10"}:
            return 10 ** int(fields["$pow10"])
        return {k: expand_values(v) for k, v in fields.items()}
    if isinstance(fields, list):
        return [expand_values(v) for v in fields]
    return fields
FLOAT_VALUES = [0.0, -0.0, 0.5, 1.5, -2.25, 1e300, 1e-9, float("inf"), float("-inf"), float("nan"), 18.0,
                0.3, 0.1 + 0.2, 9007199254740992.0, 9007199254740993.0, 1e16, 123456789.123]
OTHER_VALUES = [True, False, None]

COMPARE_OPS = ["==", "!=", ">", "<", ">=", "<=", "in", "not in"]


# ---------------------------------------------------------------------------
# programs
# ---------------------------------------------------------------------------
class Program:
    """A generated experiment: token list + rendered text + what we know about it."""

    __slots__ = ("tid", "tokens", "text", "name", "salt", "splitters", "cond_fields",
                 "literals", "n_returns", "kind", "note")

    def __init__(self):
        self.tid = ""
        self.tokens = []          # list[str]: the token sequence (no trivia)
        self.text = ""
        self.name = ""
        self.salt = None
        self.splitters = []
        self.cond_fields = []     # identifiers that occur in predicates
        self.literals = {}        # field -> list of python literals it is compared with
        self.n_returns = 0
        self.kind = "valid"       # what the generator *intended*; the tree's own verdict decides
        self.note = ""

    def describe(self):
        return {"tid": self.tid, "kind": self.kind, "note": self.note, "name": self.name,
                "splitters": self.splitters, "cond_fields": self.cond_fields,
                "n_returns": self.n_returns, "text": self.text}


def _quote(rng, s):
    q = '"' if rng.random() < 0.7 else "'"
    return q + s + q


def _num_literal(rng):
    r = rng.random()
    if r < 0.55:
        v = rng.choice([0, 1, 2, 3, 4, 5, 9, 10, 18, 21, 65, 100, 1000])
        return (str(v), v)
    if r < 0.75:
        v = rng.choice([0.5, 1.5, 2.25, 18.0, 99.9])
        return (repr(v), v)
    if r < 0.9:
        v = rng.choice([1, 2, 5, 100])
        return ("- " + str(v) if rng.random() < 0.3 else "-" + str(v), -v)
    v = rng.choice([0.5, 3.75])
    return ("-" + repr(v), -v)


def _str_literal(rng):
    s = rng.choice(["a", "b", "c", "xyz", "FR", "DE", "pro", "free", "ios", "b1", "", "42", "premium user"])
    return (_quote(rng, s), s)


def _literal(rng):
    return _num_literal(rng) if rng.random() < 0.5 else _str_literal(rng)


class _Builder:
    def __init__(self, rng, tid, opts):
        self.rng = rng
        self.tid = tid
        self.opts = opts
        self.p = Program()
        self.p.tid = tid
        self.branch = 0
        self.fields_pool = []

    # -- tokens ------------------------------------------------------------
    def weight(self):
        rng = self.rng
        r = rng.random()
        if r < 0.55:
            return [str(rng.choice([1, 1, 1, 2, 3, 4, 5, 10, 50, 99]))]
        if r < 0.8:
            return [rng.choice(["0.5", "0.25", "1.5", "3.4", "0.001", "10.0"])]
        if r < 0.9:
            return ["0"]
        return [rng.choice(["0.0", "7", "1000000", "0.000000001", "123456789.123", "1000000000"])]

    def return_stmt(self):
        rng = self.rng
        self.branch += 1
        b = self.branch
        n = rng.choice(self.opts.get("group_choices", [1, 1, 2, 2, 2, 3, 3, 4, 5, 6, 6, 8, 9, 12, 20, 20, 33, 64]))
        toks = ["return"]
        numeric = rng.random() < 0.08
        for g in range(n):
            if g:
                toks.append(",")
            if numeric:
                # unique numeric labels, int or float (polymorphic returns)
                base = (abs(hash_str(self.tid)) % 900 + 100) * 1000 + b * 10 + g
                lab = str(base) if g % 2 == 0 else str(base) + ".5"
                toks.append(lab)
            else:
                lab = f"{self.tid}.{b}.{g}"
                if rng.random() < 0.01:
                    lab += "." + "L" * 300          # a very long label
                toks.append(_quote(rng, lab))
            toks.append("weighted")
            toks += self.weight()
        if n >= 3 and not numeric and rng.random() < 0.1:
            # the same label listed twice in one return statement (legal: its shares add up)
            labs = [i for i, t in enumerate(toks) if i + 1 < len(toks) and toks[i + 1] == "weighted"]
            a, b = rng.sample(labs, 2)
            toks[b] = toks[a]
        # avoid all-zero weight vectors most of the time (they are a legal text whose calls raise)
        ws = [toks[i + 1] for i, t in enumerate(toks) if t == "weighted"]
        if all(float(w) == 0.0 for w in ws) and rng.random() < 0.9:
            idx = [i + 1 for i, t in enumerate(toks) if t == "weighted"][rng.randrange(n)]
            toks[idx] = "1"
        self.p.n_returns += 1
        return toks

    def term_field(self):
        f = self.rng.choice(self.fields_pool)
        if f not in self.p.cond_fields:
            self.p.cond_fields.append(f)
        return f

    def terminal_pred(self):
        rng = self.rng
        f = self.term_field()
        op = rng.choice(COMPARE_OPS)
        if op in ("in", "not in"):
            r = rng.random()
            if r < 0.8:
                n = rng.choice([1, 2, 3, 4])
                lits = [_literal(rng) if rng.random() < 0.3 else _num_literal(rng) for _ in range(n)]
                if rng.random() < 0.5:
                    lits = [_str_literal(rng) for _ in range(n)]
                toks = ["("]
                for i, (t, _v) in enumerate(lits):
                    if i:
                        toks.append(",")
                    toks += t.split(" ") if t.startswith("- ") else [t]
                toks.append(")")
                self.p.literals.setdefault(f, []).extend(v for _t, v in lits)
                return [f] + op.split(" ") + toks
            # field in other_field
            g = self.term_field()
            return [f] + op.split(" ") + [g]
        r = rng.random()
        if r < 0.8:
            t, v = _literal(rng)
            self.p.literals.setdefault(f, []).append(v)
            lit = t.split(" ") if t.startswith("- ") else [t]
            if rng.random() < 0.1:
                return lit + [op, f]
            return [f, op] + lit
        g = self.term_field()
        return [f, op, g]

    def pred(self, depth):
        rng = self.rng
        r = rng.random()
        if depth <= 0 or r < 0.55:
            toks = self.terminal_pred()
        elif r < 0.7:
            toks = ["not"] + self.pred(depth - 1)
        elif r < 0.85:
            toks = self.pred(depth - 1) + ["and"] + self.pred(depth - 1)
        else:
            toks = self.pred(depth - 1) + ["or"] + self.pred(depth - 1)
        if rng.random() < 0.2:
            toks = ["("] + toks + [")"]
        return toks

    def conditional(self, depth):
        rng = self.rng
        if depth <= 0 or rng.random() < 0.35 or not self.fields_pool or self.p.n_returns >= self.opts.get("max_returns", 16):
            return self.return_stmt()
        toks = ["if"] + self.pred(2) + ["{"] + self.conditional(depth - 1) + ["}"]
        n_elif = rng.choice(self.opts.get("elif_choices", [0, 0, 1, 1, 2, 3, 4, 4, 7, 10]))
        for _ in range(n_elif):
            if self.p.n_returns >= self.opts.get("max_returns", 16):
                break
            toks += ["else if"] + self.pred(2) + ["{"] + self.conditional(depth - 1) + ["}"]
        if rng.random() < 0.65:
            toks += ["else", "{"] + self.conditional(depth - 1) + ["}"]
        return toks

    def build(self):
        rng, p, o = self.rng, self.p, self.opts
        p.name = o.get("name") or (rng.choice(RESERVED_LOOKING_NAMES) if rng.random() < o.get("p_reserved_looking", 0.04) else rng.choice(EXP_NAMES))
        ids = list(PLAIN_IDS)
        rng.shuffle(ids)
        if rng.random() < o.get("p_kwprefix", 0.04):
            ids.insert(0, rng.choice(KEYWORD_PREFIX_IDS))
        lo, hi = o.get("splitters", (0, 4))
        nspl = rng.randint(lo, hi)
        if hi >= 3 and rng.random() < 0.03:
            nspl = rng.choice([5, 6, 8])             # more splitter fields than usual
        if rng.random() < 0.03:
            ids.insert(0, "very_long_identifier_" + "x" * 60)
        if nspl >= 2 and rng.random() < o.get("p_case_pair", 0.06):
            # two field names that differ only in letter case
            a, b = rng.choice(CASE_PAIRS)
            ids = [x for x in ids if x not in (a, b)]
            pair = [a, b]
            rng.shuffle(pair)
            ids[rng.randrange(nspl - 1):0] = pair
        p.splitters = ids[:nspl]
        ncond = rng.choice([0, 1, 1, 2, 2, 3])
        self.fields_pool = ids[nspl:nspl + ncond]
        if p.splitters and rng.random() < o.get("p_shared_field", 0.03):
            self.fields_pool.append(p.splitters[0])      # splitter reused in a condition (duplicate argument today)
        toks = ["def", p.name, "{"]
        if rng.random() < o.get("p_salt", 0.5):
            p.salt = rng.choice(["s1", "csdvs887", "", "salt with space", "S-" + self.tid, "été"])
            toks += ["salt", ":", _quote(rng, p.salt)]
        if p.splitters:
            toks += ["splitters", ":"]
            for i, s in enumerate(p.splitters):
                if i:
                    toks.append(",")
                toks.append(s)
        depth = rng.choice(o.get("depths", [0, 1, 1, 2, 2, 3, 3, 5])) if self.fields_pool else 0
        toks += self.conditional(depth)
        toks.append("}")
        p.tokens = toks
        return p


def hash_str(s):
    """Process-independent small hash (never the builtin hash())."""
    h = 0
    for ch in s:
        h = (h * 131 + ord(ch)) % 1000003
    return h


TRIVIA_SIMPLE = [" ", " ", " ", "\n", "\t", "  ", "\n    "]
COMMENTS = ["// note\n", "// 'quoted' if else return\n", "/* block */\n", "/* multi\n line */\n",
            "/*****\n * doc\n *****/\n", "//\n"]


def render(rng, tokens, p_comment=0.04, compact=False, p_giant=0.0, p_dangling=0.0):
    """Join tokens with whitespace / comment trivia. p_giant: one very large block comment (sources of hundreds of KB are
    legal and cheap to lex); p_dangling: the text ends inside an unterminated block comment (the tree accepts that)."""
    out = []
    if p_giant and rng.random() < p_giant:
        n = rng.choice([40_000, 120_000, 300_000])
        out.append("/* " + ("padding " * (n // 8)) + "*/\n")
    if rng.random() < 0.3 and not compact:
        out.append(rng.choice(["\n", "/* header comment */\n", "// header\n"]))
    for i, t in enumerate(tokens):
        out.append(t)
        if i == len(tokens) - 1:
            break
        if compact:
            out.append(" ")
            continue
        if rng.random() < p_comment:
            out.append(" " + rng.choice(COMMENTS))
        else:
            out.append(rng.choice(TRIVIA_SIMPLE))
    if rng.random() < 0.3 and not compact:
        out.append(rng.choice(["\n", "\n// trailing\n", " /* end */"]))
    if p_dangling and rng.random() < p_dangling:
        out.append(rng.choice(["\n/* todo", " /* never closed\n", "\n/*"]))
    return "".join(out)


def gen_program(rng, tid, **opts):
    """One experiment the generator intends to be grammatical."""
    b = _Builder(rng, tid, opts)
    p = b.build()
    p.text = render(rng, p.tokens, p_comment=opts.get("p_comment", 0.04), compact=opts.get("compact", False),
                    p_giant=opts.get("p_giant", 0.01), p_dangling=opts.get("p_dangling", 0.02))
    return p


DEEP_SHAPES = ("elif", "elif", "elif", "nest", "nest", "or", "and", "not")
# sizes around the places where today's interpreter gives up on such a text (nesting limits of compile(), the recursion limit)
DEEP_SIZES = (60, 95, 105, 190, 210, 420, 700, 880, 960, 1040, 1200, 1450, 1700, 1950, 2050, 2300, 2600, 2900, 3400)


def deep_program(rng, tid, name, shape=None, n=None):
    """One experiment whose conditional is `n` levels long or deep. Whether the tree accepts it is the tree's business
    (long chains end in a RecursionError, deep nests in compile()'s nesting limits): what matters here is that the answer
    depends on process-wide limits, so it is the same every time only if nothing moves them."""
    shape = shape or rng.choice(DEEP_SHAPES)
    n = n or rng.choice(DEEP_SIZES)

    def ret(k):
        return 'return "%s.%s" weighted %d, "%s.%s.b" weighted 1' % (tid, k, rng.choice([1, 2, 3]), tid, k)

    if shape == "elif":
        body = "if " + " else if ".join("x == %d { %s }" % (i, ret(i % 7)) for i in range(n)) + " else { %s }" % ret("z")
    elif shape == "nest":
        body = "".join("if x >= %d { " % i for i in range(n)) + ret("in") + "".join(" } else { %s }" % ret(i % 5) for i in range(n))
    elif shape in ("or", "and"):
        body = "if " + (" %s " % shape).join("x %s %d" % ("==" if shape == "or" else ">=", i) for i in range(n)) + " { %s } else { %s }" % (ret("y"), ret("z"))
    else:
        body = "if " + "not " * n + "x == 1 { %s } else { %s }" % (ret("y"), ret("z"))
    p = Program()
    p.tid, p.name = tid, name
    p.splitters, p.cond_fields = ["u"], ["x"]
    p.literals = {"x": [0, 1, 2, n - 1, n]}
    p.n_returns = 2
    p.note = "deep:%s:%d" % (shape, n)
    p.text = "def %s { splitters: u %s }" % (name, body)
    p.tokens = p.text.split()
    return p


def _relabel(tok, old_tid, new_tid):
    """Group labels carry the id of the text they belong to; derived texts get their own."""
    if len(tok) > 2 and tok[0] in "\"'" and tok[1:-1].startswith(old_tid + "."):
        return tok[0] + new_tid + tok[1 + len(old_tid):]
    return tok


def variant_of(rng, prog, tid):
    """Same experiment name / fields, different weights and labels (a 'new revision' of a config)."""
    q = Program()
    q.tid = tid
    q.name, q.salt, q.splitters = prog.name, prog.salt, list(prog.splitters)
    q.cond_fields, q.literals, q.n_returns = list(prog.cond_fields), dict(prog.literals), prog.n_returns
    toks = []
    i = 0
    src = prog.tokens
    while i < len(src):
        t = src[i]
        if i > 0 and src[i - 1] == "weighted":
            toks.append(rng.choice(["1", "2", "3", "0.5", "4", "9"]))
        elif len(t) > 2 and t[0] in "\"'" and t[1:-1].startswith(prog.tid + "."):
            toks.append(t[0] + tid + t[1 + len(prog.tid):])
        else:
            toks.append(t)
        i += 1
    q.tokens = toks
    q.text = render(rng, toks, compact=rng.random() < 0.5, p_dangling=0.03)
    q.kind = "valid"
    q.note = "variant of " + prog.tid
    return q


def near_variant_of(rng, prog, tid):
    """A text that differs from `prog` only in a way a careless normalisation would erase: letter case or inner
    whitespace of ONE string literal, a comment-looking tail inside a string, or the layout between tokens.
    It keeps prog's labels (`heads` tells the oracles which label prefixes are legitimately its own)."""
    q = Program()
    q.tid = tid
    q.name, q.salt, q.splitters = prog.name, prog.salt, list(prog.splitters)
    q.cond_fields, q.literals, q.n_returns = list(prog.cond_fields), dict(prog.literals), prog.n_returns
    toks = list(prog.tokens)
    idx = [i for i, t in enumerate(toks) if len(t) >= 2 and t[0] in "\"'" and t[-1] == t[0]]
    how = rng.choice(["case", "inner_space", "trailing_space", "comment_tail", "layout_only"])
    if idx and how != "layout_only":
        i = rng.choice(idx)
        body = toks[i][1:-1]
        if how == "case":
            body = body.upper() if body.upper() != body else body.lower()
        elif how == "inner_space":
            body = (body[:1] + "  " + body[1:]) if body else "  "
        elif how == "trailing_space":
            body = body + " "
        elif how == "comment_tail":
            body = body + " // x"
        toks[i] = toks[i][0] + body + toks[i][0]
        if i >= 1 and toks[i - 1] == ":" and i >= 2 and toks[i - 2] == "salt":
            q.salt = body
    q.tokens = toks
    q.text = render(rng, toks, p_comment=0.0, compact=(how != "layout_only"))
    q.kind = "valid"
    q.note = "near-duplicate (%s) of %s" % (how, prog.tid)
    return q


LOOKALIKE_TAILS = {
    # style: (tail of text A, tail of text B) appended to one string literal; everything else is identical
    "line": (" // a1", " // b2"),             # differs only after a comment-looking '//' inside the literal
    "block": (" /* a1 */", " /* b2 */"),
    "nfc": (" \u00e9", " e\u0301"),           # same after unicode normalisation
    "space": (" a b", " a  b"),               # same after collapsing whitespace
    "tab": (" a b", " a\tb"),
    "case": (" ab", " aB"),                   # same after case folding
    "nonascii": ("", "\u00e9"),               # same after encode(errors='ignore')
    "strip": ("", " "),                       # same after stripping the literal
    "surrogate": (" \udcc3\udca9", " \u00e9"),   # same bytes under encode('utf-8', 'surrogateescape')
}


def lookalike_pair(rng, prog, tid_a, tid_b, style=None):
    """Two texts that are identical except in ONE string literal (a group label or the salt), where they differ only in a
    way that a careless normalisation of the source (comment stripping, whitespace collapsing, case folding, unicode
    normalisation, lossy encoding) would erase. The literal is followed by a line break, so a naive comment stripper maps
    both to the same text although they are different experiments. style 'weight': one weight digit differs instead
    (same length, same prefix)."""
    toks = list(prog.tokens)
    idx = [i for i, t in enumerate(toks) if len(t) >= 2 and t[0] in "\"'" and t[-1] == t[0]]
    style = style or rng.choice(list(LOOKALIKE_TAILS) + ["weight", "num_type", "num_type", "quote_num", "quote_num"])
    widx = [i for i, t in enumerate(toks) if i > 0 and toks[i - 1] == "weighted" and t.isdigit()]
    if style == "weight" and not widx:
        style = "line"
    if style in ("num_type", "quote_num"):
        pair = _numeric_lookalike(rng, prog, tid_a, tid_b, style)
        if pair:
            return pair
        style = "line"
    if style != "weight" and not idx:
        return None
    i = rng.choice(widx if style == "weight" else idx)
    quote = rng.choice(["'", '"'])
    body = toks[i][1:-1]
    out = []
    layout_seed = rng.randrange(1 << 30)
    import random as _random

    for n, tid in enumerate((tid_a, tid_b)):
        q = Program()
        q.tid = tid
        q.name, q.salt, q.splitters = prog.name, prog.salt, list(prog.splitters)
        q.cond_fields, q.literals, q.n_returns = list(prog.cond_fields), dict(prog.literals), prog.n_returns
        t2 = list(toks)
        if style == "weight":
            t2[i] = str((int(toks[i]) % 9) + 1) if n else str(((int(toks[i]) + 3) % 9) + 1)
        else:
            lit = body + LOOKALIKE_TAILS[style][n]
            t2[i] = quote + lit + quote + "\n"      # the line break belongs to the token: both texts share the layout
            if i >= 2 and toks[i - 1] == ":" and toks[i - 2] == "salt":
                q.salt = lit
        q.tokens = t2
        q.text = render(_random.Random(layout_seed), t2, p_comment=0.0, compact=True)
        q.kind = "valid"
        q.note = "lookalike (%s) of %s" % (style, prog.tid)
        out.append(q)
    return out


def _numeric_lookalike(rng, prog, tid_a, tid_b, style):
    """num_type: one group label is the number N in text A and N.0 in text B (equal as values, different as results);
    quote_num: one member of a tuple is the number N in A and the string "N" in B."""
    import random as _random

    toks = list(prog.tokens)
    if style == "num_type":
        cand = [i for i, t in enumerate(toks) if i + 1 < len(toks) and toks[i + 1] == "weighted"]
        if not cand:
            return None
        i = rng.choice(cand)
        n = str(rng.choice([1, 2, 7, 10, 100]))
        reps = (n, n + ".0")
    else:
        cand = [i for i, t in enumerate(toks) if t.isdigit() and i > 0 and toks[i - 1] in ("(", ",") and i + 1 < len(toks)
                and toks[i + 1] in (",", ")") and not (i > 1 and toks[i - 2] == "weighted")]
        cand = [i for i in cand if "weighted" not in toks[max(0, i - 1):i]]
        if not cand:
            return None
        i = rng.choice(cand)
        reps = (toks[i], '"' + toks[i] + '"')
        # the field the tuple is tested against, so that panels contain the value that tells the two texts apart
        j = i
        while j > 0 and toks[j] != "(":
            j -= 1
        fld = None
        if j >= 2 and toks[j - 1] == "in":
            fld = toks[j - 3] if toks[j - 2] == "not" and j >= 3 else toks[j - 2]
        must = (fld, int(toks[i])) if fld and fld.isidentifier() else None
    out = []
    layout_seed = rng.randrange(1 << 30)
    for n_, tid in enumerate((tid_a, tid_b)):
        q = Program()
        q.tid = tid
        q.name, q.salt, q.splitters = prog.name, prog.salt, list(prog.splitters)
        q.cond_fields, q.literals, q.n_returns = list(prog.cond_fields), dict(prog.literals), prog.n_returns
        t2 = list(toks)
        t2[i] = reps[n_]
        q.tokens = t2
        q.text = render(_random.Random(layout_seed), t2, p_comment=0.0, compact=True)
        q.kind = "valid"
        q.note = "lookalike (%s) of %s" % (style, prog.tid)
        if style == "quote_num" and must:
            q.literals = dict(q.literals)
            q.literals[must[0]] = [must[1]] * 6 + [str(must[1])]      # panels lean towards the distinguishing value
        out.append(q)
    return out


comment_lookalike_pair = lookalike_pair


# ---------------------------------------------------------------------------
# invalid texts
# ---------------------------------------------------------------------------
ILLEGAL_CHARS = ["@", ";", ".", "=", "$", "#", "?", "\\", "`", "~", "[", "]", "%", "&", "|", "^"]


def gen_invalid(rng, base, tid, kind=None):
    """A text intended to be rejected, derived from `base` (a Program) by one mutation.
    Whether the tree really rejects it is decided by the tree (pristine judgement)."""
    q = Program()
    q.tid = tid
    q.name, q.salt, q.splitters = base.name, base.salt, list(base.splitters)
    q.cond_fields, q.literals = list(base.cond_fields), dict(base.literals)
    q.kind = "invalid"
    toks = [_relabel(t, base.tid, tid) for t in base.tokens]
    kinds = ["delete", "duplicate", "transpose", "truncate", "illegal", "prefix", "suffix", "two_defs",
             "empty", "reserved_name", "unclosed_comment", "unclosed_string", "shared_field", "garbage", "huge_literal"]
    k = kind or rng.choice(kinds)
    q.note = k
    if k == "delete":
        i = rng.randrange(len(toks))
        del toks[i]
    elif k == "duplicate":
        i = rng.randrange(len(toks))
        toks.insert(i, toks[i])
    elif k == "transpose":
        if len(toks) > 2:
            i = rng.randrange(len(toks) - 1)
            toks[i], toks[i + 1] = toks[i + 1], toks[i]
    elif k == "truncate":
        toks = toks[: rng.randrange(0, len(toks))]
    elif k == "illegal":
        i = rng.randrange(len(toks) + 1)
        toks.insert(i, rng.choice(ILLEGAL_CHARS) * rng.choice([1, 1, 2]))
    elif k == "prefix":
        toks = rng.choice([["junk"], ["}", "{"], ["return"], ["42"], ['"s"']]) + toks
    elif k == "suffix":
        toks = toks + rng.choice([["junk"], ["}"], ["def"], ["return", '"x"', "weighted", "1"], ["{", "}"]])
    elif k == "two_defs":
        toks = toks + toks
    elif k == "empty":
        toks = rng.choice([[], [" "], ["\n\n"], ["// only a comment"], ["/* c */"]])
    elif k == "reserved_name":
        toks[1] = rng.choice(PY_RESERVED)
        q.name = toks[1]
    elif k == "unclosed_comment":
        i = rng.randrange(len(toks) + 1)
        toks.insert(i, "/* never closed")
    elif k == "unclosed_string":
        i = rng.randrange(len(toks) + 1)
        toks.insert(i, '"dangling')
    elif k == "shared_field":
        # a condition on a splitter field (late failure: duplicate argument in the generated def)
        f = base.splitters[0] if base.splitters else "uid"
        body = ["if", f, "==", "1", "{", "return", _quote(rng, tid + ".s.0"), "weighted", "1", "}"]
        toks = ["def", base.name, "{", "splitters", ":", f] + body + ["}"]
    elif k == "huge_literal":
        # a number too long for the interpreter's int<->str limit: the tree rejects the text (ValueError from the lexer)
        idx = [i for i, t in enumerate(toks) if t.isdigit()]
        if idx:
            toks[rng.choice(idx)] = "7" * rng.choice([4301, 6000])
        else:
            toks.insert(len(toks) - 1, "7" * 4301)
    elif k == "garbage":
        toks = [rng.choice(["def", "{", "}", "if", "return", "weighted", "x", "1", ",", ":", "(", ")", "==", '"s"'])
                for _ in range(rng.randint(1, 12))]
    q.tokens = toks
    q.text = render(rng, toks, p_comment=0.0, compact=rng.random() < 0.6) if toks else ""
    if k == "empty":
        q.text = "".join(toks)
    return q


# ---------------------------------------------------------------------------
# field values
# ---------------------------------------------------------------------------
def gen_value(rng, ascii_only=False):
    r = rng.random()
    if r < 0.4:
        v = rng.choice(STR_VALUES)
        if ascii_only and not v.isascii():
            v = "ascii-" + str(len(v))
        return v
    if r < 0.7:
        if rng.random() < 0.02:
            return dict(HUGE_INT_MARKER)
        return rng.choice(INT_VALUES)
    if r < 0.78:
        return "u-" + str(rng.randrange(10 ** 6))
    if r < 0.9:
        return rng.choice(FLOAT_VALUES)
    return rng.choice(OTHER_VALUES)


def _near(rng, lit):
    if isinstance(lit, bool) or lit is None:
        return lit
    if isinstance(lit, int):
        return rng.choice([lit, lit, lit, lit + 1, lit - 1, str(lit), float(lit)])     # incl. values that only PRINT alike
    if isinstance(lit, float):
        return rng.choice([lit, lit, lit + 0.5, lit - 0.5, int(lit), str(lit)])
    if isinstance(lit, str):
        if lit.isdigit() and rng.random() < 0.3:
            return int(lit)
        return rng.choice([lit, lit, lit, lit + "x", lit.upper()])
    return lit


def gen_fields(rng, prog, ascii_only=False, p_missing=0.04, p_extra=0.15):
    """Keyword arguments for one call of `prog`."""
    f = {}
    for s in prog.splitters:
        f[s] = gen_value(rng, ascii_only)
    for c in prog.cond_fields:
        lits = prog.literals.get(c)
        if lits and rng.random() < 0.7:
            f[c] = _near(rng, rng.choice(lits))
        elif rng.random() < 0.3:
            f[c] = rng.choice([("a", "b", "c"), [1, 2, 3], "abc", (1, 2, 3, 4, 5)])
            if isinstance(f[c], tuple):
                f[c] = list(f[c])
        else:
            f[c] = gen_value(rng, ascii_only)
    if f and rng.random() < p_missing:
        del f[rng.choice(sorted(f))]
    if rng.random() < p_extra:
        f[rng.choice(["extra", "debug", "kwargs_", "population"])] = gen_value(rng, ascii_only)
    if rng.random() < 0.3:
        keys = list(f)
        rng.shuffle(keys)
        f = {k: f[k] for k in keys}
    return f


def gen_panel(rng, prog, n=8, ascii_only=True):
    """A fixed probe panel for one program: n field dicts."""
    return [gen_fields(rng, prog, ascii_only=ascii_only, p_missing=0.05 if i else 0.0) for i in range(n)]
