"""Self-tests of the machinery: determinism (same seed => same event-log digests, across interpreters,
hash seeds and worker counts) and sensitivity (known property-breaking patches are detected)."""

from __future__ import annotations

import glob
import json
import os
import shutil
import subprocess
import sys
import tempfile
import time

from . import common
from .common import PY, VERIF

CHECK = os.path.join(VERIF, "check")


# ---------------------------------------------------------------------------
# determinism
# ---------------------------------------------------------------------------
def _digests(engine, seed, indices, hashseed, extra_env=None):
    env = common.child_env({"PYTHONHASHSEED": str(hashseed)})
    if extra_env:
        env.update(extra_env)
    cmd = [PY, CHECK, "_worker", engine, "--seed", str(seed), "--tier", "quick", "--indices", ",".join(map(str, indices))]
    p = subprocess.run(cmd, stdout=subprocess.PIPE, stderr=subprocess.PIPE, env=env, cwd=VERIF, timeout=3600)
    if p.returncode != 0:
        raise common.HarnessError(f"worker failed rc={p.returncode}: {p.stderr.decode()[-2000:]}")
    out = {}
    for ln in p.stdout.decode().splitlines():
        rec = json.loads(ln)
        if rec.get("type") == "summary":
            for i, d in rec["digests"]:
                out[i] = d
    return out


def determinism(argv):
    """For each engine: run a sample of run ids in several fresh interpreters under different PYTHONHASHSEED values and
    different partitions of the indices over workers; all event-log digests must be equal."""
    engines = [a for a in argv if a in ("C01", "C11", "C17")] or ["C11", "C17", "C01"]
    n = int(os.environ.get("VERIF_DET_N", "0")) or None
    seed = common.seed_from_env()
    bad = 0
    from concurrent.futures import ThreadPoolExecutor

    for eng in engines:
        count = n or {"C11": 600, "C17": 240, "C01": 32}[eng]
        idx = list(range(count))
        parts = 8
        jobs = []
        with ThreadPoolExecutor(max_workers=16) as ex:
            # configuration A: 8 workers striding, hash seed 0; B: 8 contiguous blocks, hash seed 4242; C: reversed order inside blocks, seed 99
            for w in range(parts):
                jobs.append(("A", ex.submit(_digests, eng, seed, idx[w::parts], 0)))
            blk = (count + parts - 1) // parts
            for w in range(parts):
                jobs.append(("B", ex.submit(_digests, eng, seed, idx[w * blk:(w + 1) * blk], 4242)))
            res = {"A": {}, "B": {}}
            for tag, fut in jobs:
                res[tag].update(fut.result())
        diff = [i for i in idx if res["A"].get(i) != res["B"].get(i)]
        print(f"determinism {eng}: {count} run ids x 2 fresh-interpreter configurations (hash seeds 0 / 4242, different worker partitions): "
              f"{len(diff)} digests differ")
        if diff:
            bad += 1
            print("  first differing run ids:", diff[:10])
    return 2 if bad else 0


# ---------------------------------------------------------------------------
# sensitivity
# ---------------------------------------------------------------------------
def _props_for(name, meta):
    if meta and meta.get("properties"):
        return meta["properties"]
    if meta and meta.get("property"):
        return [meta["property"]]
    head = name.split("-")
    return [h.upper() for h in head if h.upper() in ("C01", "C11", "C17")]


def _scratch_copy():
    d = tempfile.mkdtemp(prefix="pyab-mut-")
    repo = common.repo_root()
    for sub in ("src", "tests", "pyproject.toml", "README.md"):
        s = os.path.join(repo, sub)
        if os.path.isdir(s):
            shutil.copytree(s, os.path.join(d, sub), ignore=shutil.ignore_patterns("__pycache__"))
        elif os.path.exists(s):
            shutil.copy(s, os.path.join(d, sub))
    return d


def sensitivity(argv):
    """Applies each known property-breaking patch to a scratch copy of the repo, checks that the repo's own tests still pass
    there, and expects the corresponding check(s) to report a VIOLATION within the given budget."""
    with_tests = "--no-tests" not in argv
    names = [a for a in argv if not a.startswith("--")]
    budget = os.environ.get("VERIF_SENS_BUDGET", "30")
    patches = sorted(glob.glob(os.path.join(VERIF, "mutants", "*.patch")) + glob.glob(os.path.join(VERIF, "seeded", "*", "patch.diff")))
    rows = []
    missed = 0
    for path in patches:
        name = os.path.basename(path)[:-6] if path.endswith(".patch") else os.path.basename(os.path.dirname(path))
        if names and name not in names:
            continue
        meta = None
        mp = os.path.join(os.path.dirname(path), "meta.json")
        if os.path.basename(path) == "patch.diff" and os.path.exists(mp):
            with open(mp) as fp:
                meta = json.load(fp)
        props = _props_for(name, meta)
        d = _scratch_copy()
        try:
            ap = subprocess.run(["patch", "-p1", "-s", "-i", path], cwd=d, capture_output=True, text=True)
            if ap.returncode != 0:
                rows.append((name, "PATCH-DOES-NOT-APPLY", ap.stdout[-200:] + ap.stderr[-200:]))
                missed += 1
                continue
            tests = "skipped"
            if with_tests:
                home = os.path.join(d, "home")
                os.makedirs(home, exist_ok=True)
                env = common.child_env({"PYTHONPATH": os.path.join(d, "src"), "HOME": home, "XDG_CACHE_HOME": home, "TMPDIR": home})
                tp = subprocess.run([PY, "-m", "pytest", "-q", "-x", "-p", "no:cacheprovider", "tests"], cwd=d, env=env,
                                    capture_output=True, text=True, timeout=1800)
                tests = "pass" if tp.returncode == 0 else "FAIL"
            for prop in props:
                t0 = time.monotonic()
                env = dict(os.environ, VERIF_REPO=d, VERIF_BUDGET=budget, VERIF_EVIDENCE_DIR=os.path.join(d, "evidence"),
                           VERIF_REPLAY_DIR=os.path.join(d, "replays"))
                cp = subprocess.run([CHECK, prop, "--tier", "quick"], cwd=VERIF, env=env, capture_output=True, text=True, timeout=3600)
                detected = cp.returncode == 1 and "VIOLATION property=" + prop in cp.stdout
                known_miss = bool(meta and meta.get("known_miss"))
                if not detected and not known_miss:
                    missed += 1
                if known_miss:
                    name = name + " [known miss, see meta.json]" if not name.endswith("]") else name
                rows.append((name, prop, f"tests={tests} detected={'yes' if detected else 'NO'} rc={cp.returncode} {time.monotonic() - t0:.0f}s "
                             + cp.stdout.strip().splitlines()[0][:160] if cp.stdout.strip() else f"tests={tests} detected=NO rc={cp.returncode} " + cp.stderr[-300:]))
                print("progress", *rows[-1], file=sys.stderr, flush=True)
        finally:
            shutil.rmtree(d, ignore_errors=True)
    for r in rows:
        print("sensitivity", *r)
        sys.stdout.flush()
    print(f"sensitivity: {len(rows)} (patch, property) pairs, {missed} not detected")
    return 2 if missed else 0


def benign(argv):
    """False-alarm test: behaviour-preserving changes (/verif/benign/<id>/patch.diff: correct refactors of the evaluator and of the
    pipeline written by independent agents, plus two of our own) are applied to a scratch copy; every check must stay quiet (exit 0)."""
    names = [a for a in argv if not a.startswith("--")]
    budget = os.environ.get("VERIF_SENS_BUDGET", "30")
    rows, alarms = [], 0
    for path in sorted(glob.glob(os.path.join(VERIF, "benign", "*", "patch.diff"))):
        name = os.path.basename(os.path.dirname(path))
        if names and name not in names:
            continue
        d = _scratch_copy()
        try:
            ap = subprocess.run(["patch", "-p1", "-s", "-i", path], cwd=d, capture_output=True, text=True)
            if ap.returncode != 0:
                rows.append((name, "PATCH-DOES-NOT-APPLY", ""))
                alarms += 1
                continue
            for prop in ("C11", "C17", "C01"):
                t0 = time.monotonic()
                env = dict(os.environ, VERIF_REPO=d, VERIF_BUDGET=budget, VERIF_EVIDENCE_DIR=os.path.join(d, "evidence"),
                           VERIF_REPLAY_DIR=os.path.join(d, "replays"))
                cp = subprocess.run([CHECK, prop, "--tier", "quick"], cwd=VERIF, env=env, capture_output=True, text=True, timeout=3600)
                quiet = cp.returncode == 0 and "VIOLATION" not in cp.stdout
                if not quiet:
                    alarms += 1
                rows.append((name, prop, f"quiet={'yes' if quiet else 'NO'} rc={cp.returncode} {time.monotonic() - t0:.0f}s "
                             + (cp.stdout.strip().splitlines()[0][:150] if cp.stdout.strip() else cp.stderr[-200:])))
                print("progress", *rows[-1], file=sys.stderr, flush=True)
        finally:
            shutil.rmtree(d, ignore_errors=True)
    for r in rows:
        print("benign", *r)
        sys.stdout.flush()
    print(f"benign: {len(rows)} (change, property) pairs, {alarms} alarms")
    return 2 if alarms else 0
