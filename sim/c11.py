"""C11 check: master, worker and replay entry points for the lifecycle engine."""

from __future__ import annotations

import json
import os
import sys
import time

from . import common, driver, lifecycle
from .common import HarnessError, digest_obj, rng_for

PROP = "C11"
TIERS = {"quick": {"budget": 60.0, "max_runs": 10 ** 9}, "thorough": {"budget": 840.0, "max_runs": 10 ** 9}}
MAX_VIOLATIONS_REPORTED = 3


def scenario_for(seed, index):
    rng = rng_for(PROP, seed, index)
    return lifecycle.gen_scenario(rng, index, faults_enabled=(index % 2 == 1))


def signature_of(sc, vclass):
    """Shape of a (minimised) failing history: op kinds with the tree's verdict on each text."""
    return {"vclass": vclass, "ops": [op["op"] + (":" + sc["texts"][op["t"]]["kind"] if "t" in op else "") +
                                      ("+fault" if "fault" in op else "") for op in sc["ops"]]}


def worker(argv):
    a = driver.parse_worker_args(argv)
    out = common.WorkerOut()
    from . import threads

    threads.install_locks()      # before the package is imported: a lock left held shows as a violation, not as a hang
    common.setup_repo_path()
    common.assert_repo_loaded()
    driver.arm_watchdog(a["budget"] * 3 + 300)
    if os.environ.get("VERIF_WARM") == "1":
        lifecycle.warmup()     # default is cold: every forked run starts from a process that never used the package
    stats = {}
    runner = lifecycle.Runner({})
    n = 0
    states = 0
    crash_sites = set()
    ops_total = 0
    nviol = 0
    samples = []
    digests = []
    for idx in driver.worker_indices(a):
        sc = scenario_for(a["seed"], idx)
        res = runner.run(sc)
        n += 1
        ops_total += res["info"]["ops_executed"]
        states += len(res["info"]["states"])
        crash_sites |= {tuple(x) for x in res["info"]["crash_sites"]}
        for k, v in res["info"]["stats"].items():
            stats[k] = stats.get(k, 0) + v
        digests.append([idx, digest_obj([res["result"], res.get("vclass"), res["log"]])])
        if res["result"] == "violation":
            nviol += 1
            if nviol <= 1:
                small = lifecycle.minimise(sc, res["vclass"], runner, budget=250)
                res2 = runner.run(small)
                out.emit({"type": "violation", "index": idx, "vclass": res["vclass"], "scenario": small,
                          "detail": res2.get("detail"), "step": res2.get("step"), "original_ops": len(sc["ops"]),
                          "reproduced_in_worker": res2["result"] == "violation" and res2.get("vclass") == res["vclass"]})
        elif len(samples) < 2 and len(sc["ops"]) <= 8:
            samples.append({"index": idx, "faults_enabled": sc["faults_enabled"],
                            "texts": [{"tid": t["tid"], "kind": t["kind"], "note": t["note"], "text": t["text"][:200]} for t in sc["texts"]],
                            "ops": sc["ops"], "log": res["log"]})
    out.emit({"type": "summary", "runs": n, "ops": ops_total, "states": states, "crash_sites": sorted(map(list, crash_sites)),
              "stats": stats, "violations": nviol, "samples": samples, "digests": digests})
    return 0


def replay(payload):
    """Replay a recorded (minimised) scenario; exit 1 and print the violation if it reproduces."""
    from . import threads

    threads.install_locks()
    common.setup_repo_path()
    common.assert_repo_loaded()
    if os.environ.get("VERIF_WARM") == "1":
        lifecycle.warmup()
    runner = lifecycle.Runner({})
    res = runner.run(payload["scenario"])
    if res["result"] == "violation":
        print(f"REPRODUCED property={PROP} class={res['vclass']} step={res['step']}")
        print(json.dumps(res["detail"], default=repr)[:2000])
        return 1 if res["vclass"] == payload.get("vclass") else 3
    print("NOT-REPRODUCED")
    return 0


def master(tier, seed):
    t0 = time.monotonic()
    cfg = TIERS[tier]
    budget = float(os.environ.get("VERIF_BUDGET", cfg["budget"]))
    agg = {"runs": 0, "ops": 0, "states": 0, "stats": {}, "violations": 0, "samples": [], "crash_sites": set(), "digests": 0}
    viol_recs = []
    harness = []
    try:
        for rec in common.run_workers("C11", seed, tier, budget, cfg["max_runs"]):
            if rec["type"] == "summary":
                agg["runs"] += rec["runs"]
                agg["ops"] += rec["ops"]
                agg["states"] += rec["states"]
                agg["violations"] += rec["violations"]
                agg["digests"] += len(rec["digests"])
                for k, v in rec["stats"].items():
                    agg["stats"][k] = agg["stats"].get(k, 0) + v
                agg["crash_sites"] |= {tuple(x) for x in rec["crash_sites"]}
                if len(agg["samples"]) < 3:
                    agg["samples"] += rec["samples"][:1]
            elif rec["type"] == "violation":
                viol_recs.append(rec)
    except HarnessError as e:
        harness.append(str(e))
    # report: one replay file per distinct minimised signature
    paths, known_hits, seen, unreproduced = [], [], set(), []
    for rec in sorted(viol_recs, key=lambda r: r["index"]):
        sig = signature_of(rec["scenario"], rec["vclass"])
        key = json.dumps(sig, sort_keys=True)
        if key in seen:
            continue
        seen.add(key)
        k = driver.match_known(PROP, sig)
        if k is not None:
            known_hits.append(k.get("what", key))
            continue
        if len(paths) >= MAX_VIOLATIONS_REPORTED:
            continue
        path = common.write_replay(PROP, seed, rec["index"], {"engine": "lifecycle", "vclass": rec["vclass"],
                                                             "signature": sig, "detail": rec["detail"], "step": rec["step"],
                                                             "original_ops": rec["original_ops"], "scenario": rec["scenario"]})
        rc, so, se = driver.replay_in_fresh_interpreter(path)
        if rc == 1:
            paths.append(path)
        else:
            # never reported as a violation; only fatal if nothing else reproduces (see driver.finish)
            unreproduced.append(f"replay of {path} in a fresh interpreter did not reproduce (rc={rc}): {so[-200:]} {se[-200:]}")
            try:
                os.replace(path, path + ".unreproduced")
            except OSError:
                pass
    wall = time.monotonic() - t0
    stats = agg["stats"]
    faults = {k: v for k, v in sorted(stats.items()) if k.startswith("fault")}
    probes = {k: v for k, v in sorted(stats.items()) if k.startswith("probe.") or k.startswith("op.")}
    cov = {
        "evaluations": agg["runs"],
        "distinct_nontrivial": agg["states"],
        "rule": "one evaluation = one seeded history (alphabet of valid/invalid texts + <=40 new/recompile/call/drop/gc operations + "
                "faults) executed against real ExperimentEvaluator objects and checked against the fresh-evaluator model after every "
                "operation; distinct_nontrivial = distinct abstract states <per slot: accepted text, last attempted text, outcome class "
                "of the last attempt, tainted> reached in which at least one compile attempt has happened (alphabets are unique per run, "
                "so states of different runs are distinct by construction and per-run sets are summed)",
        "samples": agg["samples"] or [{"note": "no short sample run in this batch"}],
        "operations_executed": agg["ops"],
        "runs_per_hour": int(agg["runs"] / wall * 3600) if wall > 0 else 0,
        "seeds": {"VERIF_SEED": seed, "run_indices": "0..%d (even: fault-free batch, odd: fault-injecting batch)" % max(0, agg["runs"] - 1)},
        "fault_kinds_fired": faults,
        "rare_condition_probes": probes,
        "model_probe_calls": stats.get("probe_calls", 0),
        "faults_swallowed": stats.get("faults_swallowed", 0),
        "distinct_crash_points_fired": len(agg["crash_sites"]),
        "simulated_time": "%d simulated seconds of idle periods (time.time / monotonic / perf_counter are a simulated clock moved only by reads "
                          "and by generated idle operations; the pinned tree reads no clock, so this matters only for changes that add one)"
                          % stats.get("sim_idle_seconds", 0),
        "real_components": ["pyab_experiment (lexer, LR parser, pydantic AST, code generator, compile/exec)", "pydantic", "hashlib"],
        "stubbed_components": ["sys.stdout / sys.stderr (simulator stream that can fail writes or be None)",
                               "global random (re-seeded identically before the real and the model call)",
                               "threading.Lock / RLock (a lock left held shows as 'operation never returns' instead of a hang)",
                               "the run's disk: private empty HOME / TMPDIR per forked run",
                               "the `time` module's clocks (simulated wall + monotonic clock per run)"],
        "workers": common.n_workers(),
    }
    common.write_evidence(PROP, tier, seed, cov, wall, len(paths),
                          ["'valid' / 'invalid' is the tree's own verdict on a pristine construction (C06/C07 are not decided here)",
                           "crash points are injected only inside compile-stage frames (never between two statements of recompile itself)",
                           "sampling, not proof: a clean batch is evidence"])
    if agg["runs"] == 0 and not harness:
        harness.append("no run was executed")
    print(f"C11 {tier}: runs={agg['runs']} ops={agg['ops']} states={agg['states']} violations_raw={agg['violations']} "
          f"reported={len(paths)} wall={wall:.1f}s")
    return driver.finish(PROP, paths, known_hits, harness, unreproduced)
