"""C01 fleet node: a real interpreter process holding evaluator instances.

Started by the fleet simulator with an environment it chose (PYTHONHASHSEED, locale variables, cwd).
Speaks JSON lines over a dedicated pipe pair (fds in VERIF_NODE_FDS), never over stdout/stderr,
which the package itself may print to.
"""
import json
import os
import sys


def install_entropy(seed):
    """Per-process entropy sources a program might (wrongly) fold into an assignment are drawn from the
    simulator's value for this node incarnation, so that a run is a pure function of the scenario:
    os.urandom (hence uuid4, secrets), the global random state, time.time / time_ns / monotonic, os.getpid / getppid.
    Returns the function that moves this node's clocks (the simulator's `idle` operation)."""
    import hashlib
    import random
    import time

    state = {"n": 0}

    def urandom(n):
        out = b""
        while len(out) < n:
            state["n"] += 1
            out += hashlib.sha256(b"%d:%d" % (seed, state["n"])).digest()
        return out[:n]

    os.urandom = urandom
    random._urandom = urandom
    random.seed(seed)
    t_base = 1_700_000_000.0 + (seed % 10_000_000) * 7.0

    skew = {"wall": 0.0}

    def fake_time():
        state["n"] += 1
        return t_base + skew["wall"] + state["n"] * 0.001

    time.time = fake_time
    time.time_ns = lambda: int(fake_time() * 1e9)
    mono = {"t": 1000.0 + (seed % 1000)}

    def fake_mono():
        mono["t"] += 0.0001
        return mono["t"]

    time.monotonic = fake_mono
    time.perf_counter = fake_mono
    time.process_time = fake_mono
    time.monotonic_ns = lambda: int(fake_mono() * 1e9)
    time.perf_counter_ns = lambda: int(fake_mono() * 1e9)
    fake_pid = 1000 + seed % 60000
    os.getpid = lambda: fake_pid
    os.getppid = lambda: 1

    def advance(dt, wall_step=0.0):
        # an idle period on both clocks, plus a step of the wall clock alone (may go backwards; the monotonic clock never does)
        mono["t"] += max(0.0, dt)
        skew["wall"] += max(0.0, dt) + wall_step

    return advance


def main():
    rfd, wfd = (int(x) for x in os.environ["VERIF_NODE_FDS"].split(","))
    src = os.environ["VERIF_NODE_SRC"]
    sys.path.insert(0, src)
    sys.dont_write_bytecode = True
    inp = os.fdopen(rfd, "r", encoding="utf-8", newline="\n")
    out = os.fdopen(wfd, "w", encoding="utf-8", newline="\n")
    devnull = open(os.devnull, "w")
    sys.stdout = sys.stderr = devnull
    info = {"hashseed": os.environ.get("PYTHONHASHSEED")}
    advance_clock = install_entropy(int(os.environ.get("VERIF_NODE_ENTROPY", "1")))
    # an embedding application would adopt the user's locale
    import locale

    try:
        locale.setlocale(locale.LC_ALL, "")
        info["locale"] = locale.setlocale(locale.LC_ALL)
    except Exception as e:  # noqa: BLE001
        info["locale"] = "error:" + type(e).__name__
    if os.environ.get("VERIF_NODE_RMCWD") == "1":
        try:
            os.rmdir(os.getcwd())
        except Exception:  # noqa: BLE001
            pass
    try:
        os.getcwd()
        info["cwd"] = "ok"
    except Exception as e:  # noqa: BLE001
        info["cwd"] = "gone:" + type(e).__name__
    info["fsenc"] = sys.getfilesystemencoding()
    info["utf8_mode"] = sys.flags.utf8_mode
    import pyab_experiment
    from pyab_experiment.experiment_evaluator import ExperimentEvaluator

    info["pkg"] = os.path.abspath(pyab_experiment.__file__)
    slots = {}

    def expand(v):
        # {"$pow10": n} stands for 10**n (too long to travel as a JSON number)
        if isinstance(v, dict):
            if set(v) == {"$pow10"}:
                return 10 ** int(v["$pow10"])
            return {k: expand(x) for k, x in v.items()}
        if isinstance(v, list):
            return [expand(x) for x in v]
        return v

    def outcome(fn, *a, **kw):
        kw = expand(kw)
        try:
            v = fn(*a, **kw)
        except Exception as e:  # noqa: BLE001
            return ["raise", type(e).__name__]
        return ["ok", type(v).__name__, repr(v)]

    out.write(json.dumps({"ready": True, "info": info}) + "\n")
    out.flush()
    for line in inp:
        req = json.loads(line)
        op = req["op"]
        if op == "new":
            try:
                slots[req["slot"]] = ExperimentEvaluator(req["text"])
                res = ["ok"]
            except Exception as e:  # noqa: BLE001
                res = ["raise", type(e).__name__]
        elif op == "recompile":
            try:
                slots[req["slot"]].recompile(req["text"])
                res = ["ok"]
            except Exception as e:  # noqa: BLE001
                res = ["raise", type(e).__name__]
        elif op == "call":
            res = outcome(slots[req["slot"]], **req["fields"])
        elif op == "burst":
            ev = slots[req["slot"]]
            res = [outcome(ev, **f) for f in req["fields"]]
        elif op == "drop":
            slots.pop(req["slot"], None)
            import gc

            gc.collect()
            res = ["ok"]
        elif op == "idle":
            advance_clock(float(req["dt"]), float(req.get("wall_step", 0.0)))
            res = ["ok"]
        elif op == "quit":
            out.write(json.dumps({"res": ["ok"]}) + "\n")
            out.flush()
            break
        else:
            res = ["raise", "BadRequest"]
        out.write(json.dumps({"res": res}) + "\n")
        out.flush()
    os._exit(0)


if __name__ == "__main__":
    main()
