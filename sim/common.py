"""Plumbing shared by the simulators: repo location, PRNG derivation, outcome normal form,
evidence and replay files, known findings, worker fan-out."""

from __future__ import annotations

import hashlib
import io
import json
import os
import random
import subprocess
import sys
import time

VERIF = os.path.dirname(os.path.dirname(os.path.abspath(__file__)))
PY = "/venv/bin/python"
# the harness's own clock: bound before any simulated clock is installed (SimClock patches the `time` module's attributes)
REAL_MONOTONIC = time.monotonic


def repo_root():
    return os.path.abspath(os.environ.get("VERIF_REPO", "/repo"))


def repo_src():
    return os.path.join(repo_root(), "src")


def setup_repo_path():
    """Make `pyab_experiment` importable from the *current working tree* of the repo under test."""
    src = repo_src()
    if src in sys.path:
        sys.path.remove(src)
    sys.path.insert(0, src)
    sys.dont_write_bytecode = True


def assert_repo_loaded():
    import pyab_experiment

    f = os.path.abspath(pyab_experiment.__file__)
    if not f.startswith(repo_src() + os.sep):
        raise HarnessError(f"pyab_experiment loaded from {f}, expected under {repo_src()}")


class HarnessError(Exception):
    """A problem of the machinery (exit 2), never a property violation."""


def seed_from_env():
    try:
        return int(os.environ.get("VERIF_SEED", "0"))
    except ValueError:
        return 0


def rng_for(prop, seed, index, stream="main"):
    # str seeding goes through SHA-512: independent of PYTHONHASHSEED and of the worker
    return random.Random(f"{prop}:{seed}:{index}:{stream}")


# ---------------------------------------------------------------------------
# outcome normal form
# ---------------------------------------------------------------------------
def outcome_of(fn, *a, **kw):
    if kw:
        from .gen import expand_values

        kw = expand_values(kw)
    try:
        v = fn(*a, **kw)
    except Exception as e:  # noqa: BLE001 - classification is the point
        return ("raise", type(e).__name__)
    return ("ok", type(v).__name__, repr(v))


def fmt_outcome(o):
    return list(o) if o is not None else None


# ---------------------------------------------------------------------------
# stdio seam
# ---------------------------------------------------------------------------
class SimStream(io.TextIOBase):
    """Replacement for sys.stdout / sys.stderr owned by the simulator.
    Records what is written; can be switched to fail every write."""

    def __init__(self, name):
        super().__init__()
        self.name_ = name
        self.chunks = []
        self.fail_errno = None
        self.fired = 0

    def writable(self):
        return True

    def write(self, s):
        if self.fail_errno is not None:
            self.fired += 1
            raise OSError(self.fail_errno, os.strerror(self.fail_errno))
        self.chunks.append(s)
        if len(self.chunks) > 2000:
            del self.chunks[:1000]
        return len(s)

    def flush(self):
        if self.fail_errno is not None:
            self.fired += 1
            raise OSError(self.fail_errno, os.strerror(self.fail_errno))

    def take(self):
        s = "".join(self.chunks)
        self.chunks.clear()
        return s


# ---------------------------------------------------------------------------
# clock seam
# ---------------------------------------------------------------------------
class SimClock:
    """Simulated wall and monotonic clocks for the process under test (the `time` module is the seam: the package
    has no clock today, a change that adds one - TTL caches, idle sweeps, date-derived defaults - reads it through here).
    Every read advances the clock by one microsecond (durations are non-zero and a pure function of the history);
    `advance` is the injected fault: an idle period, or a wall-clock step (NTP correction, VM resume) that may go backwards
    while the monotonic clock never does."""

    NAMES = ("time", "time_ns", "monotonic", "monotonic_ns", "perf_counter", "perf_counter_ns", "process_time", "process_time_ns")

    def __init__(self, wall0=1_700_000_000.0, mono0=5_000.0):
        self.wall = float(wall0)
        self.mono = float(mono0)
        self.saved = None
        self.reads = 0

    def _tick(self):
        self.reads += 1
        self.wall += 1e-6
        self.mono += 1e-6

    def install(self):
        if self.saved is not None:
            return
        self.saved = {n: getattr(time, n) for n in self.NAMES}

        def wall():
            self._tick()
            return self.wall

        def mono():
            self._tick()
            return self.mono

        time.time = wall
        time.time_ns = lambda: int(wall() * 1e9)
        for n in ("monotonic", "perf_counter", "process_time"):
            setattr(time, n, mono)
            setattr(time, n + "_ns", lambda: int(mono() * 1e9))

    def uninstall(self):
        if self.saved is not None:
            for n, f in self.saved.items():
                setattr(time, n, f)
            self.saved = None

    def advance(self, dt, wall_step=0.0):
        """An idle period of dt seconds on both clocks, plus a step of the wall clock alone."""
        self.mono += max(0.0, float(dt))
        self.wall += max(0.0, float(dt)) + float(wall_step)


# what the PRNG picks idle periods from: around the usual TTL / sweep / rotation constants (seconds)
IDLE_PERIODS = (0.5, 2.0, 11.0, 61.0, 301.0, 601.0, 1801.0, 3601.0, 7201.0, 43201.0, 86401.0, 7 * 86400.0 + 1, 31 * 86400.0 + 1, 400 * 86400.0)


def gen_idle(rng):
    op = {"op": "idle", "dt": rng.choice(IDLE_PERIODS) * rng.choice((1.0, 1.0, 1.0, 3.0))}
    if rng.random() < 0.2:
        op["wall_step"] = rng.choice((-86400.0, -3600.0, -1.5, 1.5, 3600.0, 86400.0))
    return op


# ---------------------------------------------------------------------------
# digests
# ---------------------------------------------------------------------------
def digest_obj(obj):
    return hashlib.sha256(json.dumps(obj, sort_keys=True, default=repr).encode()).hexdigest()[:16]


# ---------------------------------------------------------------------------
# replay / evidence / known findings
# ---------------------------------------------------------------------------
def write_replay(prop, seed, index, payload):
    d = os.environ.get("VERIF_REPLAY_DIR") or os.path.join(VERIF, "replays")
    os.makedirs(d, exist_ok=True)
    path = os.path.join(d, f"{prop}-{seed}-{index}.json")
    payload = dict(payload)
    payload.setdefault("property", prop)
    payload.setdefault("seed", seed)
    payload.setdefault("run", index)
    with open(path, "w") as fp:
        json.dump(payload, fp, indent=1, default=repr)
    return path


def write_evidence(prop, tier, seed, coverage, wall_s, violations, assumptions):
    d = os.environ.get("VERIF_EVIDENCE_DIR") or os.path.join(VERIF, "evidence")
    os.makedirs(d, exist_ok=True)
    ev = {
        "property_id": prop,
        "tier": tier,
        "seed": int(seed),
        "level": "exploration",
        "coverage": coverage,
        "assumptions": assumptions,
        "wall_s": round(float(wall_s), 3),
        "violations": int(violations),
    }
    tmp = os.path.join(d, f".{prop}.json.tmp")
    with open(tmp, "w") as fp:
        json.dump(ev, fp, indent=1, default=repr)
    os.replace(tmp, os.path.join(d, f"{prop}.json"))
    return ev


def load_known_findings(prop):
    path = os.path.join(VERIF, "known_findings.json")
    if not os.path.exists(path):
        return []
    with open(path) as fp:
        data = json.load(fp)
    return [e for e in data.get("findings", []) if e.get("property") == prop]


# ---------------------------------------------------------------------------
# worker fan-out
# ---------------------------------------------------------------------------
def n_workers():
    try:
        return max(1, int(os.environ.get("VERIF_WORKERS", "0")) or min(16, os.cpu_count() or 1))
    except ValueError:
        return 16


def child_env(extra=None):
    env = dict(os.environ)
    env["PYTHONHASHSEED"] = env.get("VERIF_HASHSEED", "0")
    env["PYTHONDONTWRITEBYTECODE"] = "1"
    env.pop("PYTHONPATH", None)
    if extra:
        env.update(extra)
    return env


def run_workers(engine, seed, tier, budget_s, max_runs, extra_args=(), workers=None, hard_timeout=None):
    """Start W worker processes; worker w executes run indices w, w+W, w+2W, ...
    Yields parsed JSON records as they arrive. Raises HarnessError if a worker dies."""
    W = workers or n_workers()
    check = os.path.join(VERIF, "check")
    procs = []
    for w in range(W):
        cmd = [PY, check, "_worker", engine, "--seed", str(seed), "--tier", tier, "--first", str(w),
               "--stride", str(W), "--budget", str(budget_s), "--max-runs", str(max_runs)] + list(extra_args)
        p = subprocess.Popen(cmd, stdout=subprocess.PIPE, stderr=subprocess.PIPE, env=child_env(), cwd=VERIF)
        procs.append(p)
    import selectors

    sel = selectors.DefaultSelector()
    bufs = {}
    for p in procs:
        os.set_blocking(p.stdout.fileno(), False)
        sel.register(p.stdout, selectors.EVENT_READ, p)
        bufs[p.pid] = b""
    t0 = time.monotonic()
    hard = hard_timeout or (budget_s * 3 + 420)
    live = len(procs)
    try:
        while live:
            if time.monotonic() - t0 > hard:
                raise HarnessError(f"workers exceeded hard timeout {hard}s")
            for key, _ in sel.select(timeout=1.0):
                p = key.data
                try:
                    chunk = os.read(key.fileobj.fileno(), 1 << 16)
                except BlockingIOError:
                    continue
                if not chunk:
                    sel.unregister(key.fileobj)
                    live -= 1
                    rc = p.wait()
                    if rc != 0:
                        err = p.stderr.read().decode(errors="replace")[-4000:]
                        raise HarnessError(f"worker pid={p.pid} exited {rc}: {err}")
                    continue
                bufs[p.pid] += chunk
                *lines, bufs[p.pid] = bufs[p.pid].split(b"\n")
                for ln in lines:
                    if ln.strip():
                        yield json.loads(ln)
    finally:
        for p in procs:
            if p.poll() is None:
                p.kill()
            try:
                p.stdout.close()
                p.stderr.close()
            except Exception:  # noqa: BLE001
                pass
            p.wait()


def run_isolated(fn, args=(), timeout=600.0):
    """Runs fn(*args) in a forked child and returns its JSON-serialisable result.
    Every simulated run starts from the same (warmed-up, otherwise pristine) process image, so no run can
    depend on what earlier runs left behind in module- or class-level state, and a hung run can be killed."""
    import select
    import signal
    import traceback

    import shutil
    import tempfile

    r, w = os.pipe()
    sys.stdout.flush() if hasattr(sys.stdout, "flush") and sys.stdout is not None else None
    # the run's "disk": an empty private directory that TMPDIR / HOME / XDG_CACHE_HOME point to, so that anything the
    # code under test keeps on disk (caches, lock files) starts empty in every run and in every replay
    disk = tempfile.mkdtemp(prefix="pyab-run-")
    pid = os.fork()
    if pid == 0:
        rc = 0
        try:
            os.close(r)
            for var in ("TMPDIR", "TEMP", "TMP", "HOME", "XDG_CACHE_HOME", "XDG_CONFIG_HOME", "XDG_DATA_HOME"):
                os.environ[var] = disk
            tempfile.tempdir = None
            res = fn(*args)
            data = json.dumps(res, default=repr).encode()
            while data:
                n = os.write(w, data)
                data = data[n:]
        except BaseException:  # noqa: BLE001
            rc = 3
            try:
                os.write(2, traceback.format_exc().encode())
            except Exception:  # noqa: BLE001
                pass
        finally:
            os._exit(rc)
    os.close(w)
    chunks = []
    t_end = REAL_MONOTONIC() + timeout
    try:
        while True:
            left = t_end - REAL_MONOTONIC()
            if left <= 0:
                os.kill(pid, signal.SIGKILL)
                os.waitpid(pid, 0)
                raise HarnessError(f"isolated run exceeded {timeout:.0f}s wall (killed)")
            rl, _, _ = select.select([r], [], [], min(left, 5.0))
            if rl:
                c = os.read(r, 1 << 16)
                if not c:
                    break
                chunks.append(c)
    except BaseException:
        shutil.rmtree(disk, ignore_errors=True)
        raise
    finally:
        os.close(r)
    _, status = os.waitpid(pid, 0)
    shutil.rmtree(disk, ignore_errors=True)
    if status != 0:
        raise HarnessError(f"isolated run died with status {status}")
    return json.loads(b"".join(chunks))


class WorkerOut:
    """Result channel of a worker: the real stdout, saved before fd 1 / sys.stdout are taken over."""

    def __init__(self):
        self.fd = os.dup(1)
        devnull = os.open(os.devnull, os.O_WRONLY)
        os.dup2(devnull, 1)
        os.close(devnull)

    def emit(self, rec):
        data = (json.dumps(rec, default=repr) + "\n").encode()
        while data:
            n = os.write(self.fd, data)
            data = data[n:]
