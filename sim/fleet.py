"""C01 engine: multi-process deployment simulator (DESIGN.md section 3).

Nodes are real child interpreters started with an environment chosen by the PRNG; the simulator is the only
client, issues one request at a time and waits for the answer, so the total order of operations is decided
by the PRNG alone."""

from __future__ import annotations

import json
import os
import select
import shutil
import signal
import subprocess
import tempfile

from .common import HarnessError, PY, VERIF, repo_src

NODE_PY = os.path.join(VERIF, "sim", "node.py")
LOCALE_CHOICES = [None, "C", "C.utf8", "POSIX", "xx_YY.UTF-8", "C.UTF-8"]


_CWD_CANDIDATES = None
_FILE_RE = None


def scan_cwd_candidates():
    """Fault dimension 'contents of the working directory': file names that the package's own source mentions
    (string literals that look like a config / data file name) are candidates to be planted in a node's cwd, filled with
    every identifier-like literal of the same module as section and key. On a tree that never mentions a file name
    (the pinned one) nothing is planted. Pure function of the working tree."""
    global _CWD_CANDIDATES, _FILE_RE
    if _CWD_CANDIDATES is not None:
        return _CWD_CANDIDATES
    import ast
    import re

    _FILE_RE = re.compile(r"^(\.[A-Za-z][\w.-]{1,30}|[\w-][\w.-]{0,40}\.(ini|cfg|toml|json|ya?ml|conf|txt|env|properties|salt|pyab|rc))$")
    ident = re.compile(r"^[A-Za-z_][\w-]{0,30}$")
    out = {}
    root = os.path.join(repo_src(), "pyab_experiment")
    for dp, dn, fns in sorted(os.walk(root)):
        dn.sort()
        for fn in sorted(fns):
            if not fn.endswith(".py"):
                continue
            try:
                with open(os.path.join(dp, fn), encoding="utf-8") as fp:
                    tree = ast.parse(fp.read())
            except (SyntaxError, OSError, UnicodeDecodeError):
                continue
            strs = [n.value for n in ast.walk(tree) if isinstance(n, ast.Constant) and isinstance(n.value, str)]
            names = sorted({x for x in strs if _FILE_RE.match(x)})
            if not names:
                continue
            idents = sorted({x for x in strs if ident.match(x) and not _FILE_RE.match(x)})[:40]
            for nm in names:
                out.setdefault(nm, [])
                out[nm] = sorted(set(out[nm]) | set(idents))[:40]
    _CWD_CANDIDATES = out
    return out


def cwd_file_content(name, idents, value):
    ext = name.rsplit(".", 1)[-1].lower() if "." in name else ""
    if ext == "json":
        import json as _json

        d = {k: value for k in idents}
        for sct in idents:
            d[sct] = {k: value for k in idents}
        return _json.dumps(d)
    if ext in ("yaml", "yml"):
        lines = []
        for sct in idents:
            lines.append(f"{sct}:")
            lines += [f"  {k}: {value}" for k in idents]
        return "\n".join(lines) + "\n"
    if ext == "toml":
        lines = [f'{k} = "{value}"' for k in idents]
        for sct in idents:
            lines.append(f"[{sct}]")
            lines += [f'{k} = "{value}"' for k in idents]
        return "\n".join(lines) + "\n"
    lines = []
    if ext in ("env", "properties", "txt", "salt", "rc", ""):
        lines += [f"{k}={value}" for k in idents] or [value]
    for sct in idents:
        lines.append(f"[{sct}]")
        lines += [f"{k} = {value}" for k in idents]
    return "\n".join(lines) + "\n"


def gen_env(rng):
    """Process environment of one node incarnation; explicit values only (never 'random')."""
    e = {"hashseed": 0 if rng.random() < 0.1 else rng.randrange(1, 2 ** 32 - 1)}
    e["LC_ALL"] = rng.choice(LOCALE_CHOICES)
    e["LANG"] = rng.choice(LOCALE_CHOICES)
    e["PYTHONUTF8"] = rng.choice([None, None, "0", "1"])
    e["cwd"] = rng.choice(["root", "tmp", "tmp", "deleted", "symlink"])
    # the last path component of a fresh working directory: plain, with a space, non-ASCII, very long
    e["cwd_name"] = rng.choice(["plain", "plain", "space", "unicode", "long"])
    # individual locale categories on top of LC_ALL / LANG (LC_ALL, when set, overrides them - as in real life)
    for cat in ("LC_NUMERIC", "LC_COLLATE", "LC_CTYPE", "LC_MONETARY", "LC_TIME", "LC_MESSAGES"):
        if rng.random() < 0.15:
            e[cat] = rng.choice([x for x in LOCALE_CHOICES if x])
    e["umask"] = rng.choice([0o022, 0o022, 0o077, 0o000, 0o027])
    # what a real process would draw from the OS at start-up (urandom, pid, start time): owned by the simulator too
    e["entropy"] = rng.randrange(1, 2 ** 32)
    cands = scan_cwd_candidates()
    if cands and e["cwd"] == "tmp" and rng.random() < 0.6:
        value = "cwd" + str(rng.randrange(1000))
        e["cwd_files"] = {nm: cwd_file_content(nm, cands[nm], value) for nm in sorted(cands) if rng.random() < 0.7}
    # further ways in which two interpreter processes serving the same experiment legitimately differ (drawn last)
    e["PYTHONOPTIMIZE"] = rng.choice([None, None, None, "1", "2"])          # -O / -OO: asserts and docstrings stripped
    e["TZ"] = rng.choice([None, None, "UTC", "Asia/Tokyo", "America/Los_Angeles"])
    e["PYTHONIOENCODING"] = rng.choice([None, None, None, "latin-1", "ascii:replace"])
    e["COLUMNS"] = rng.choice([None, None, "40", "200"])
    return e


_FLEET_ROOT = None


def _fleet_root():
    global _FLEET_ROOT
    if _FLEET_ROOT is None or not os.path.isdir(_FLEET_ROOT):
        import atexit

        _FLEET_ROOT = tempfile.mkdtemp(prefix="pyab-fleet-%d-" % os.getpid())
        atexit.register(shutil.rmtree, _FLEET_ROOT, True)
    return _FLEET_ROOT


class Node:
    def __init__(self, name, env):
        self.name = name
        self.env = env
        self.proc = None
        self.tmp = None
        self.info = None
        self.incarnation = 0
        self.disk = None
        self.link = None

    def start(self):
        env_spec = self.env
        r_child, w_parent = os.pipe()
        r_parent, w_child = os.pipe()
        env = {k: v for k, v in os.environ.items() if not k.startswith("LC_") and k not in ("LANG", "LANGUAGE", "PYTHONUTF8", "PYTHONPATH", "PYTHONHASHSEED",
                                                                                        "PYTHONOPTIMIZE", "TZ", "PYTHONIOENCODING", "COLUMNS")}
        env["PYTHONHASHSEED"] = str(env_spec["hashseed"])
        for k in ("LC_ALL", "LANG", "PYTHONUTF8", "LC_NUMERIC", "LC_COLLATE", "LC_CTYPE", "LC_MONETARY", "LC_TIME", "LC_MESSAGES",
                  "PYTHONOPTIMIZE", "TZ", "PYTHONIOENCODING", "COLUMNS"):
            if env_spec.get(k) is not None:
                env[k] = env_spec[k]
        env["VERIF_NODE_FDS"] = f"{r_child},{w_child}"
        env["VERIF_NODE_SRC"] = repo_src()
        env["VERIF_NODE_ENTROPY"] = str(env_spec.get("entropy", 1))
        # the node's own disk (survives crash-restarts of this node, is not shared with other nodes, starts empty)
        if self.disk is None:
            self.disk = os.path.join(_fleet_root(), "disk-%s-%d" % (self.name, id(self) % 100000))
            os.makedirs(self.disk, exist_ok=True)
        for var in ("TMPDIR", "TEMP", "TMP", "HOME", "XDG_CACHE_HOME", "XDG_CONFIG_HOME", "XDG_DATA_HOME"):
            env[var] = self.disk
        env["PYTHONDONTWRITEBYTECODE"] = "1"
        cwd = "/"
        if env_spec["cwd"] in ("tmp", "deleted", "symlink"):
            # deterministic name (a program that folds its cwd into an assignment must replay exactly)
            # (the parent directory is private to this harness process, so concurrent checks cannot collide;
            #  only the last path component is a function of the scenario)
            ent = env_spec.get("entropy", 0)
            leaf = {"plain": "pyab-node-%d", "space": "pyab node %d", "unicode": "pyab-n\u0153ud-\u65e5\u672c-%d",
                    "long": "pyab-" + "d" * 180 + "-%d"}.get(env_spec.get("cwd_name", "plain"), "pyab-node-%d") % ent
            base = os.path.join(_fleet_root(), leaf)
            self.tmp = base
            k = 0
            while True:
                try:
                    os.mkdir(self.tmp)
                    break
                except FileExistsError:
                    k += 1
                    self.tmp = f"{base}-{k}"
            cwd = self.tmp
            for nm, content in sorted((env_spec.get("cwd_files") or {}).items()):
                if "/" in nm or nm in (".", ".."):
                    continue
                with open(os.path.join(self.tmp, nm), "w", encoding="utf-8") as fp:
                    fp.write(content)
            if env_spec["cwd"] == "deleted":
                env["VERIF_NODE_RMCWD"] = "1"
            if env_spec["cwd"] == "symlink":
                link = self.tmp + ".link"
                try:
                    os.symlink(self.tmp, link)
                    cwd = link
                    self.link = link
                except OSError:
                    pass
        self.proc = subprocess.Popen([PY, NODE_PY], env=env, cwd=cwd, pass_fds=(r_child, w_child), umask=env_spec.get("umask", -1),
                                     stdin=subprocess.DEVNULL, stdout=subprocess.DEVNULL, stderr=subprocess.DEVNULL)
        os.close(r_child)
        os.close(w_child)
        self.r = r_parent
        self.w = os.fdopen(w_parent, "w", encoding="utf-8", newline="\n")
        self.buf = b""
        hello = self._read(60.0)
        if not hello.get("ready"):
            raise HarnessError(f"node {self.name} did not start: {hello}")
        self.info = hello["info"]
        if not self.info["pkg"].startswith(repo_src() + os.sep):
            raise HarnessError(f"node imported pyab_experiment from {self.info['pkg']}")
        self.incarnation += 1

    def _read(self, timeout):
        while b"\n" not in self.buf:
            rl, _, _ = select.select([self.r], [], [], timeout)
            if not rl:
                raise HarnessError(f"node {self.name} did not answer within {timeout}s")
            chunk = os.read(self.r, 1 << 16)
            if not chunk:
                raise HarnessError(f"node {self.name} closed its pipe (died?) rc={self.proc.poll()}")
            self.buf += chunk
        line, self.buf = self.buf.split(b"\n", 1)
        return json.loads(line)

    def request(self, req, timeout=60.0):
        self.w.write(json.dumps(req) + "\n")
        self.w.flush()
        return tuple(self._read(timeout)["res"])

    def kill(self):
        """SIGKILL: nothing survives in the process."""
        if self.proc is not None:
            try:
                self.proc.send_signal(signal.SIGKILL)
            except ProcessLookupError:
                pass
            self.proc.wait()
            self.proc = None
            try:
                self.w.close()
            except Exception:  # noqa: BLE001
                pass
            try:
                os.close(self.r)
            except OSError:
                pass
        if self.link:
            try:
                os.unlink(self.link)
            except OSError:
                pass
            self.link = None
        if self.tmp:
            shutil.rmtree(self.tmp, ignore_errors=True)
            self.tmp = None

    def destroy(self):
        """End of the deployment: the node's disk goes too."""
        self.kill()
        if self.disk:
            shutil.rmtree(self.disk, ignore_errors=True)
            self.disk = None
