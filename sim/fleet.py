"""C01 engine: multi-process deployment simulator (DESIGN.md section 3).

Nodes are real child interpreters started with an environment chosen by the PRNG; the simulator is the only
client, issues one request at a time and waits for the answer, so the total order of operations is decided
by the PRNG alone."""

from __future__ import annotations

import json
import os
import select
import shutil
import signal
import subprocess
import tempfile

from .common import HarnessError, PY, VERIF, repo_src

NODE_PY = os.path.join(VERIF, "sim", "node.py")
LOCALE_CHOICES = [None, "C", "C.utf8", "POSIX", "xx_YY.UTF-8", "C.UTF-8"]


def gen_env(rng):
    """Process environment of one node incarnation; explicit values only (never 'random')."""
    e = {"hashseed": 0 if rng.random() < 0.1 else rng.randrange(1, 2 ** 32 - 1)}
    e["LC_ALL"] = rng.choice(LOCALE_CHOICES)
    e["LANG"] = rng.choice(LOCALE_CHOICES)
    e["PYTHONUTF8"] = rng.choice([None, None, "0", "1"])
    e["cwd"] = rng.choice(["root", "tmp", "deleted"])
    # what a real process would draw from the OS at start-up (urandom, pid, start time): owned by the simulator too
    e["entropy"] = rng.randrange(1, 2 ** 32)
    return e


class Node:
    def __init__(self, name, env):
        self.name = name
        self.env = env
        self.proc = None
        self.tmp = None
        self.info = None
        self.incarnation = 0

    def start(self):
        env_spec = self.env
        r_child, w_parent = os.pipe()
        r_parent, w_child = os.pipe()
        env = {k: v for k, v in os.environ.items() if k not in ("LC_ALL", "LANG", "LC_CTYPE", "PYTHONUTF8", "PYTHONPATH", "PYTHONHASHSEED")}
        env["PYTHONHASHSEED"] = str(env_spec["hashseed"])
        for k in ("LC_ALL", "LANG", "PYTHONUTF8"):
            if env_spec.get(k) is not None:
                env[k] = env_spec[k]
        env["VERIF_NODE_FDS"] = f"{r_child},{w_child}"
        env["VERIF_NODE_SRC"] = repo_src()
        env["VERIF_NODE_ENTROPY"] = str(env_spec.get("entropy", 1))
        env["PYTHONDONTWRITEBYTECODE"] = "1"
        cwd = "/"
        if env_spec["cwd"] in ("tmp", "deleted"):
            # deterministic name (a program that folds its cwd into an assignment must replay exactly)
            base = os.path.join(tempfile.gettempdir(), "pyab-node-%d" % env_spec.get("entropy", 0))
            self.tmp = base
            k = 0
            while True:
                try:
                    os.mkdir(self.tmp)
                    break
                except FileExistsError:
                    k += 1
                    self.tmp = f"{base}-{k}"
            cwd = self.tmp
            if env_spec["cwd"] == "deleted":
                env["VERIF_NODE_RMCWD"] = "1"
        self.proc = subprocess.Popen([PY, NODE_PY], env=env, cwd=cwd, pass_fds=(r_child, w_child),
                                     stdin=subprocess.DEVNULL, stdout=subprocess.DEVNULL, stderr=subprocess.DEVNULL)
        os.close(r_child)
        os.close(w_child)
        self.r = r_parent
        self.w = os.fdopen(w_parent, "w", encoding="utf-8", newline="\n")
        self.buf = b""
        hello = self._read(60.0)
        if not hello.get("ready"):
            raise HarnessError(f"node {self.name} did not start: {hello}")
        self.info = hello["info"]
        if not self.info["pkg"].startswith(repo_src() + os.sep):
            raise HarnessError(f"node imported pyab_experiment from {self.info['pkg']}")
        self.incarnation += 1

    def _read(self, timeout):
        while b"\n" not in self.buf:
            rl, _, _ = select.select([self.r], [], [], timeout)
            if not rl:
                raise HarnessError(f"node {self.name} did not answer within {timeout}s")
            chunk = os.read(self.r, 1 << 16)
            if not chunk:
                raise HarnessError(f"node {self.name} closed its pipe (died?) rc={self.proc.poll()}")
            self.buf += chunk
        line, self.buf = self.buf.split(b"\n", 1)
        return json.loads(line)

    def request(self, req, timeout=60.0):
        self.w.write(json.dumps(req) + "\n")
        self.w.flush()
        return tuple(self._read(timeout)["res"])

    def kill(self):
        """SIGKILL: nothing survives in the process."""
        if self.proc is not None:
            try:
                self.proc.send_signal(signal.SIGKILL)
            except ProcessLookupError:
                pass
            self.proc.wait()
            self.proc = None
            try:
                self.w.close()
            except Exception:  # noqa: BLE001
                pass
            try:
                os.close(self.r)
            except OSError:
                pass
        if self.tmp:
            shutil.rmtree(self.tmp, ignore_errors=True)
            self.tmp = None
