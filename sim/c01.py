"""C01 check: deployment scenarios, single-assignment history oracle, minimisation, master / worker / replay."""

from __future__ import annotations

import json
import os
import time

from . import common, driver, fleet, gen
from .common import HarnessError, rng_for

PROP = "C01"
TIERS = {"quick": {"budget": 60.0}, "thorough": {"budget": 840.0}}
MAX_VIOLATIONS_REPORTED = 3


# ---------------------------------------------------------------------------
# scenario generation (pure function of the PRNG)
# ---------------------------------------------------------------------------
def gen_scenario(rng, index):
    progs = []
    n_base = rng.choice([1, 2, 2, 3])
    shared_name = rng.choice(["exp_a", "exp_b", "checkout"])
    for _ in range(n_base):
        opts = {"splitters": rng.choice([(1, 1), (1, 3), (2, 4), (2, 4)]), "p_kwprefix": 0.0, "p_shared_field": 0.0,
                "compact": rng.random() < 0.6, "depths": [0, 0, 1, 1, 2]}
        if rng.random() < 0.6:
            opts["name"] = shared_name
        progs.append(gen.gen_program(rng, f"r{index}t{len(progs)}", **opts))
    for _ in range(rng.choice([1, 2, 3, 4])):
        progs.append(gen.variant_of(rng, rng.choice(progs[:n_base]), f"r{index}t{len(progs)}"))
    pairs = []
    if rng.random() < 0.3:
        b = rng.randrange(len(progs))
        progs.append(gen.near_variant_of(rng, progs[b], f"r{index}t{len(progs)}"))
        pairs.append((b, len(progs) - 1))
    if rng.random() < 0.3:
        style = None
        base = rng.choice(progs)
        if rng.random() < 0.4:
            # deployments are expensive (interpreter starts): lean towards the look-alikes that need a particular program shape
            withtuple = [p for p in progs if any(t.isdigit() and i > 0 and p.tokens[i - 1] in ("(", ",") and i + 1 < len(p.tokens)
                                                and p.tokens[i + 1] in (",", ")") for i, t in enumerate(p.tokens))]
            if withtuple:
                base, style = rng.choice(withtuple), "quote_num"
            else:
                style = "num_type"
        pair = gen.lookalike_pair(rng, base, f"r{index}t{len(progs)}", f"r{index}t{len(progs) + 1}", style=style)
        if pair:
            progs.extend(pair)
            pairs.append((len(progs) - 2, len(progs) - 1))
    if rng.random() < 0.25:
        # part of the history, not of the domain: a text the tree rejects (a deployment that went wrong) - nothing it does may
        # change what valid texts do afterwards
        progs.append(gen.gen_invalid(rng, rng.choice(progs), f"r{index}t{len(progs)}"))
    huge = rng.random() < 0.08
    if huge:
        # numbers beyond the interpreter's int<->str limit, in a source text and as a unit id, in the same deployment
        progs.append(gen.gen_invalid(rng, rng.choice([p for p in progs if p.kind == "valid"]), f"r{index}t{len(progs)}", kind="huge_literal"))
    texts = []
    for p in progs:
        texts.append({"tid": p.tid, "text": p.text, "splitters": p.splitters, "history_only": p.kind == "invalid",
                      "panel": gen.gen_panel(rng, p, n=rng.choice([6, 8, 10]), ascii_only=rng.random() < 0.7)})
    if huge:
        for t in texts:
            if t["splitters"]:
                for f in t["panel"][:3]:
                    f[rng.choice(t["splitters"])] = dict(gen.HUGE_INT_MARKER)
    n_nodes = rng.choice([2, 2, 3, 3, 4, 5])
    nodes = [fleet.gen_env(rng) for _ in range(n_nodes)]
    n_ops = rng.choice([60, 120, 200, 300, 400])
    restarts_left = rng.choice([0, 1, 2, 4])
    bursts_left = rng.choice([0, 0, 1, 2, 3])
    n_slots = rng.choice([2, 3, 4])
    intended = [[None] * n_slots for _ in range(n_nodes)]
    ops = []
    # initial deployment: every node loads a couple of texts
    for n in range(n_nodes):
        for s in range(rng.randint(1, n_slots)):
            t = rng.randrange(len(texts))
            ops.append({"op": "new", "n": n, "slot": s, "t": t})
            intended[n][s] = t
    for _ in range(n_ops):
        r = rng.random()
        n = rng.randrange(n_nodes)
        s = rng.randrange(n_slots)
        if r < 0.02 and restarts_left:
            restarts_left -= 1
            ops.append({"op": "restart", "n": n, "env": fleet.gen_env(rng)})
        elif r < 0.08 or intended[n][s] is None:
            t = rng.randrange(len(texts))
            ops.append({"op": "new", "n": n, "slot": s, "t": t})
            intended[n][s] = t
        elif r < 0.16:
            # recompile away, and (often) straight back: the "recompile cycle"
            t_old, t = intended[n][s], rng.randrange(len(texts))
            ops.append({"op": "recompile", "n": n, "slot": s, "t": t})
            intended[n][s] = t
            if rng.random() < 0.6:
                ops.append({"op": "call", "n": n, "slot": s, "p": rng.randrange(10)})
                ops.append({"op": "recompile", "n": n, "slot": s, "t": t_old})
                intended[n][s] = t_old
        elif r < 0.19:
            ops.append({"op": "drop", "n": n, "slot": s})
            intended[n][s] = None
        elif r < 0.205 and bursts_left:
            # a long run of distinct units through one evaluator (caches filling up, counters crossing thresholds);
            # a few of them are then asked again elsewhere
            bursts_left -= 1
            ops.append({"op": "burst", "n": n, "slot": s, "count": rng.choice([300, 2000, 2000, 8000, 8000, 20000, 40000]), "base": rng.randrange(10 ** 6),
                        "recheck": [rng.randrange(300) for _ in range(6)], "on": rng.randrange(n_nodes)})
        elif r < 0.31:
            order = list(range(n_nodes))
            rng.shuffle(order)
            ops.append({"op": "broadcast", "t": rng.randrange(len(texts)), "p": rng.randrange(10), "order": order})
        else:
            ops.append({"op": "call", "n": n, "slot": s, "p": rng.randrange(10)})
    # look-alike texts one straight after the other on the same evaluator (a "recompile cycle" between near-identical revisions)
    for (a, b) in pairs:
        if rng.random() < 0.8:
            n, sl = rng.randrange(n_nodes), rng.randrange(n_slots)
            if rng.random() < 0.5:
                a, b = b, a
            seq = [{"op": "new", "n": n, "slot": sl, "t": a}, {"op": "call", "n": n, "slot": sl, "p": rng.randrange(10)},
                   {"op": "recompile", "n": n, "slot": sl, "t": b}]
            seq += [{"op": "call", "n": n, "slot": sl, "p": k} for k in range(4)]
            seq += [{"op": "recompile", "n": n, "slot": sl, "t": a}, {"op": "call", "n": n, "slot": sl, "p": rng.randrange(10)}]
            # the same units on an evaluator that was built from b directly, somewhere else
            n2, sl2 = rng.randrange(n_nodes), rng.randrange(n_slots)
            seq += [{"op": "new", "n": n2, "slot": sl2, "t": b}] + [{"op": "call", "n": n2, "slot": sl2, "p": k} for k in range(4)]
            at = rng.randrange(len(ops) + 1)
            ops[at:at] = seq
    # clock faults, drawn last: a node sits idle for seconds .. a year (both of its clocks), sometimes with a step of its wall clock
    # alone (also backwards); often a compile on that node follows, since that is where sweeps and expiries tend to be run
    if rng.random() < 0.4:
        for _ in range(rng.choice([1, 2, 3, 5])):
            n = rng.randrange(n_nodes)
            at = rng.randrange(1, len(ops) + 1)
            seq = [dict(common.gen_idle(rng), n=n)]
            if rng.random() < 0.5:
                seq.append({"op": "new", "n": n, "slot": n_slots, "t": rng.randrange(len(texts))})     # a slot of its own
                seq.append({"op": "drop", "n": n, "slot": n_slots})
            ops[at:at] = seq
    return {"index": index, "texts": texts, "nodes": nodes, "n_slots": n_slots, "ops": ops}


# ---------------------------------------------------------------------------
# execution + oracle
# ---------------------------------------------------------------------------
class Violation(Exception):
    def __init__(self, vclass, detail):
        super().__init__(vclass)
        self.vclass, self.detail = vclass, detail


def canon_fields(f):
    return json.dumps(f, sort_keys=True)


def permuted(fields, seed):
    """The same keyword arguments in another order (the order travels through the pipe: the node calls **fields as received)."""
    import random as _random

    keys = sorted(fields)
    _random.Random(seed).shuffle(keys)
    return {k: fields[k] for k in keys}


class Runner:
    def __init__(self, stats=None):
        self.stats = stats if stats is not None else {}

    def bump(self, k, n=1):
        self.stats[k] = self.stats.get(k, 0) + n

    def run(self, sc):
        nodes = [fleet.Node(f"n{i}", env) for i, env in enumerate(sc["nodes"])]
        try:
            return self._run(sc, nodes)
        finally:
            for nd in nodes:
                nd.destroy()

    def _run(self, sc, nodes):
        texts = sc["texts"]
        for nd in nodes:
            nd.start()
            self.bump("node_starts")
        model = [dict() for _ in nodes]        # node -> slot -> text idx (actual)
        seen = {}                              # (tid, canon fields) -> first observation
        multi = {}                             # key -> set of (hashseed) that returned a group
        construct = {}                         # text idx -> set of outcomes across nodes
        info = {"ops": 0, "calls": 0, "keys": 0, "cross_process_keys": 0, "anomalies": 0, "envs": set()}
        step = -1

        def observe(ni, slot, fields, res, step):
            nd = nodes[ni]
            ti = model[ni][slot]
            key = (texts[ti]["tid"], canon_fields(fields))
            obs = {"step": step, "node": nd.name, "incarnation": nd.incarnation, "env": nd.env, "locale": nd.info.get("locale"),
                   "cwd": nd.info.get("cwd"), "slot": slot, "outcome": list(res)}
            info["calls"] += 1
            first = seen.get(key)
            if first is None:
                seen[key] = obs
                multi[key] = set()
            else:
                a, b = tuple(first["outcome"]), tuple(res)
                if (a[0] == "ok" or b[0] == "ok") and a != b:
                    raise Violation("assignment-differs",
                                    {"tid": key[0], "fields": fields, "first": first, "second": obs,
                                     "why": "the same source text and field values gave two different results"})
            if res[0] == "ok":
                multi[key].add((nd.env["hashseed"], nd.incarnation, nd.name))

        first_build = {}

        def note_build(ni, ti, res, step, how):
            """The same source text must be accepted everywhere or rejected everywhere (no faults are injected here)."""
            nd = nodes[ni]
            obs = {"step": step, "node": nd.name, "incarnation": nd.incarnation, "env": nd.env, "how": how, "outcome": list(res)}
            construct.setdefault(ti, set()).add(res[0])
            f = first_build.get(ti)
            if f is None:
                first_build[ti] = obs
            elif f["outcome"][0] != res[0]:
                raise Violation("construction-differs", {"tid": texts[ti]["tid"], "first": f, "second": obs,
                                                         "why": "the same source text was accepted at one place / time and rejected at another"})

        def ensure_new(ni, slot, ti, step):
            res = nodes[ni].request({"op": "new", "slot": slot, "text": texts[ti]["text"]})
            note_build(ni, ti, res, step, "new")
            if res[0] == "ok":
                if texts[ti].get("history_only"):
                    # meant to be rejected; if the tree takes it anyway it is never called (it may have lost its splitters)
                    nodes[ni].request({"op": "drop", "slot": slot})
                    model[ni].pop(slot, None)
                    return ("raise", "HistoryOnly")
                model[ni][slot] = ti
            return res

        try:
            for step, op in enumerate(sc["ops"]):
                k = op["op"]
                info["ops"] += 1
                if k == "new":
                    ensure_new(op["n"], str(op["slot"]), op["t"], step)
                    self.bump("op.new")
                elif k == "recompile":
                    ni, slot = op["n"], str(op["slot"])
                    if slot in model[ni]:
                        res = nodes[ni].request({"op": "recompile", "slot": slot, "text": texts[op["t"]]["text"]})
                        note_build(ni, op["t"], res, step, "recompile")
                        if res[0] == "ok" and texts[op["t"]].get("history_only"):
                            nodes[ni].request({"op": "drop", "slot": slot})
                            model[ni].pop(slot, None)
                        elif res[0] == "ok":
                            model[ni][slot] = op["t"]
                        self.bump("fault.recompile_cycle")
                elif k == "idle":
                    nodes[op["n"]].request({"op": "idle", "dt": op["dt"], "wall_step": op.get("wall_step", 0.0)})
                    self.bump("fault.clock_idle_period")
                    self.bump("sim_idle_seconds", int(op["dt"]))
                    if op.get("wall_step"):
                        self.bump("fault.clock_wall_step")
                elif k == "drop":
                    ni, slot = op["n"], str(op["slot"])
                    if slot in model[ni]:
                        nodes[ni].request({"op": "drop", "slot": slot})
                        del model[ni][slot]
                        self.bump("fault.instance_drop_gc")
                elif k == "call":
                    ni, slot = op["n"], str(op["slot"])
                    if slot in model[ni]:
                        panel = texts[model[ni][slot]]["panel"]
                        fields = op["f"] if "f" in op else panel[op["p"] % len(panel)]
                        fields = permuted(fields, step * 7919 + ni)       # same values, keyword order varies from call to call
                        res = nodes[ni].request({"op": "call", "slot": slot, "fields": fields})
                        observe(ni, slot, fields, res, step)
                elif k == "burst":
                    ni, slot = op["n"], str(op["slot"])
                    if slot in model[ni]:
                        ti = model[ni][slot]
                        spl = texts[ti]["splitters"]
                        base_fields = dict(texts[ti]["panel"][0])

                        def unit(j, spl=spl, base_fields=base_fields, op=op):
                            f = dict(base_fields)
                            for q, name in enumerate(spl):
                                f[name] = (op["base"] + j) if q == 0 else f.get(name, "x")
                            return f

                        res_list = nodes[ni].request({"op": "burst", "slot": slot, "fields": [unit(j) for j in range(op["count"])]}, timeout=300.0)
                        self.bump("fault.burst_calls", op["count"])
                        for j in op["recheck"]:
                            if j < len(res_list):
                                observe(ni, slot, unit(j), tuple(res_list[j]), step)
                        # the same units on another node / a fresh instance
                        nj = op["on"] % len(nodes)
                        if ensure_new(nj, "b0", ti, step)[0] == "ok":
                            for j in op["recheck"]:
                                res = nodes[nj].request({"op": "call", "slot": "b0", "fields": unit(j)})
                                observe(nj, "b0", unit(j), res, step)
                        # and once more where the burst happened
                        for j in op["recheck"][:3]:
                            res = nodes[ni].request({"op": "call", "slot": slot, "fields": unit(j)})
                            observe(ni, slot, unit(j), res, step)
                elif k == "restart":
                    ni = op["n"]
                    nodes[ni].kill()
                    nodes[ni].env = op["env"]
                    nodes[ni].start()
                    self.bump("fault.crash_restart_new_env")
                    self.bump("node_starts")
                    deployed = dict(model[ni])
                    model[ni] = {}
                    for slot, ti in sorted(deployed.items()):     # only the deployed configuration survives
                        ensure_new(ni, slot, ti, step)
                elif k == "broadcast" and texts[op["t"]].get("history_only"):
                    pass
                elif k == "broadcast":
                    ti = op["t"]
                    panel = texts[ti]["panel"]
                    fields = panel[op["p"] % len(panel)]
                    self.bump("fault.broadcast_permuted")
                    for ni in op["order"]:
                        if ni >= len(nodes):
                            continue
                        holders = [s for s, t in sorted(model[ni].items()) if t == ti]
                        for extra in ("b0", "b1"):
                            if len(holders) >= 2:
                                break
                            if model[ni].get(extra) != ti:
                                if ensure_new(ni, extra, ti, step)[0] != "ok":
                                    break
                            if extra not in holders:
                                holders.append(extra)
                        for hi, slot in enumerate(holders):
                            pf = permuted(fields, step * 7919 + ni * 31 + hi)
                            res = nodes[ni].request({"op": "call", "slot": slot, "fields": pf})
                            observe(ni, slot, pf, res, step)
                else:
                    raise HarnessError("unknown op " + k)
        except Violation as v:
            return {"result": "violation", "vclass": v.vclass, "detail": v.detail, "step": step, "info": self._fin(info, seen, multi, construct, nodes)}
        return {"result": "ok", "info": self._fin(info, seen, multi, construct, nodes)}

    @staticmethod
    def _fin(info, seen, multi, construct, nodes):
        info["keys"] = len(seen)
        info["cross_process_keys"] = sum(1 for k, v in multi.items() if len({x[0] for x in v}) >= 2)
        info["multi_instance_keys"] = sum(1 for k, v in multi.items() if len(v) >= 2)
        info["anomalies"] = sum(1 for k, v in construct.items() if len(v) > 1)
        info["envs"] = sorted({json.dumps(nd.env, sort_keys=True) for nd in nodes})
        info["locales_seen"] = sorted({str(nd.info.get("locale")) for nd in nodes if nd.info})
        info["cwd_seen"] = sorted({str(nd.info.get("cwd")) for nd in nodes if nd.info})
        return info


# ---------------------------------------------------------------------------
# minimisation
# ---------------------------------------------------------------------------
def _fails(res, vclass):
    return res["result"] == "violation" and res["vclass"] == vclass


def minimise(sc, res, runner, budget=40):
    vclass = res["vclass"]
    tries = [0]

    def fails(cand):
        tries[0] += 1
        if tries[0] > budget:
            return False
        return _fails(runner.run(cand), vclass)

    d = res["detail"]
    tix = [i for i, t in enumerate(sc["texts"]) if t["tid"] == d["tid"]][0]
    # 1. direct two-observation scenario (typical for cross-process defects)
    a, b = d["first"], d["second"]
    if "fields" not in d:
        d = dict(d, fields={})
    cand = {"index": sc["index"], "texts": [sc["texts"][tix]], "n_slots": 1,
            "nodes": [a["env"], b["env"]],
            "ops": [{"op": "new", "n": 0, "slot": 0, "t": 0}, {"op": "call", "n": 0, "slot": 0, "f": d["fields"]},
                    {"op": "new", "n": 1, "slot": 0, "t": 0}, {"op": "call", "n": 1, "slot": 0, "f": d["fields"]}]}
    if fails(cand):
        one = dict(cand, nodes=[a["env"]], ops=[cand["ops"][0], cand["ops"][1], dict(cand["ops"][2], n=0, slot=1),
                                                dict(cand["ops"][3], n=0, slot=1)], n_slots=2)
        if fails(one):
            cand = one
        cand["minimise_tries"] = tries[0]
        return cand
    # 2. ddmin over the operation list (prefix up to the failing step)
    cur = dict(sc, ops=sc["ops"][: res["step"] + 1])
    ops = cur["ops"]
    n = 2
    while len(ops) >= 2 and tries[0] <= budget:
        chunk = max(1, len(ops) // n)
        removed = False
        for i in range(0, len(ops), chunk):
            c = ops[:i] + ops[i + chunk:]
            if c and fails(dict(cur, ops=c)):
                ops = c
                n = max(2, n - 1)
                removed = True
                break
        if not removed:
            if chunk == 1:
                break
            n = min(len(ops), n * 2)
    cur = dict(cur, ops=ops)
    cur["minimise_tries"] = tries[0]
    final = runner.run(cur)
    if not _fails(final, vclass):
        cur = dict(sc)
    return cur


def signature_of(sc, vclass):
    return {"vclass": vclass, "nodes": len(sc["nodes"]), "ops": [op["op"] for op in sc["ops"]][:40]}


# ---------------------------------------------------------------------------
# worker / replay / master
# ---------------------------------------------------------------------------
def scenario_for(seed, index):
    return gen_scenario(rng_for(PROP, seed, index), index)


def worker(argv):
    a = driver.parse_worker_args(argv)
    out = common.WorkerOut()
    driver.arm_watchdog(a["budget"] * 3 + 600)
    stats = {}
    runner = Runner(stats)
    agg = {"runs": 0, "ops": 0, "calls": 0, "keys": 0, "cross_process_keys": 0, "multi_instance_keys": 0, "anomalies": 0, "violations": 0}
    envs, locales, cwds = set(), set(), set()
    digests, samples = [], []
    for idx in driver.worker_indices(a):
        sc = scenario_for(a["seed"], idx)
        res = runner.run(sc)
        info = res["info"]
        agg["runs"] += 1
        for k in ("ops", "calls", "keys", "cross_process_keys", "multi_instance_keys", "anomalies"):
            agg[k] += info[k]
        envs |= set(info["envs"])
        locales |= set(info["locales_seen"])
        cwds |= set(info["cwd_seen"])
        digests.append([idx, common.digest_obj([res["result"], res.get("vclass"), info["calls"], info["keys"], info["cross_process_keys"]])])
        if res["result"] == "violation":
            agg["violations"] += 1
            if agg["violations"] <= 1:
                small = minimise(sc, res, runner)
                r2 = runner.run(small)
                out.emit({"type": "violation", "index": idx, "vclass": res["vclass"], "scenario": small, "detail": r2.get("detail", res["detail"]),
                          "original_ops": len(sc["ops"]), "original_nodes": len(sc["nodes"])})
        elif not samples:
            samples.append({"index": idx, "nodes": sc["nodes"], "texts": [{"tid": t["tid"], "text": t["text"][:160]} for t in sc["texts"][:3]],
                            "first_ops": sc["ops"][:12], "n_ops": len(sc["ops"]), "keys": info["keys"],
                            "cross_process_keys": info["cross_process_keys"]})
    out.emit({"type": "summary", "agg": agg, "stats": stats, "envs": sorted(envs), "locales": sorted(locales), "cwds": sorted(cwds),
              "digests": digests, "samples": samples})
    return 0


def replay(payload):
    runner = Runner({})
    res = runner.run(payload["scenario"])
    if res["result"] == "violation":
        print(f"REPRODUCED property={PROP} class={res['vclass']} step={res['step']}")
        print(json.dumps(res["detail"], default=repr)[:2500])
        return 1 if res["vclass"] == payload.get("vclass") else 3
    print("NOT-REPRODUCED")
    return 0


def master(tier, seed):
    t0 = time.monotonic()
    budget = float(os.environ.get("VERIF_BUDGET", TIERS[tier]["budget"]))
    agg, stats = {}, {}
    envs, locales, cwds = set(), set(), set()
    samples, viol_recs, harness = [], [], []
    try:
        for rec in common.run_workers("C01", seed, tier, budget, 10 ** 9):
            if rec["type"] == "summary":
                for k, v in rec["agg"].items():
                    agg[k] = agg.get(k, 0) + v
                for k, v in rec["stats"].items():
                    stats[k] = stats.get(k, 0) + v
                envs |= set(rec["envs"])
                locales |= set(rec["locales"])
                cwds |= set(rec["cwds"])
                if len(samples) < 2:
                    samples += rec["samples"][:1]
            elif rec["type"] == "violation":
                viol_recs.append(rec)
    except HarnessError as e:
        harness.append(str(e))
    paths, known_hits, seen, unreproduced = [], [], set(), []
    for rec in sorted(viol_recs, key=lambda r: r["index"]):
        sig = signature_of(rec["scenario"], rec["vclass"])
        key = json.dumps(sig, sort_keys=True)
        if key in seen:
            continue
        seen.add(key)
        k = driver.match_known(PROP, sig)
        if k is not None:
            known_hits.append(k.get("what", key))
            continue
        if len(paths) >= MAX_VIOLATIONS_REPORTED:
            continue
        path = common.write_replay(PROP, seed, rec["index"], {"engine": "fleet", "vclass": rec["vclass"], "signature": sig,
                                                             "detail": rec["detail"], "scenario": rec["scenario"],
                                                             "original_ops": rec["original_ops"], "original_nodes": rec["original_nodes"]})
        rc, so, se = driver.replay_in_fresh_interpreter(path)
        if rc == 1:
            paths.append(path)
        else:
            # never reported as a violation; only fatal if nothing else reproduces (see driver.finish)
            unreproduced.append(f"replay of {path} in a fresh interpreter did not reproduce (rc={rc}): {so[-200:]} {se[-200:]}")
            try:
                os.replace(path, path + ".unreproduced")
            except OSError:
                pass
    wall = time.monotonic() - t0
    runs = agg.get("runs", 0)
    hashseeds = {json.loads(e)["hashseed"] for e in envs}
    cov = {
        "evaluations": runs,
        "distinct_nontrivial": agg.get("cross_process_keys", 0),
        "rule": "one evaluation = one seeded deployment history (2..5 real child interpreters with PRNG-chosen PYTHONHASHSEED / LC_ALL / LANG / "
                "PYTHONUTF8 / cwd, 60..400 new / recompile-cycle / call / drop / broadcast / crash-restart operations) checked as a "
                "single-assignment register per (source text, field values); distinct_nontrivial = distinct (text, field values) keys for which a group "
                "was returned by node incarnations with at least two different hash seeds (texts and therefore keys are unique per run)",
        "samples": samples or [{"note": "no sample"}],
        "operations_executed": agg.get("ops", 0),
        "calls_checked": agg.get("calls", 0),
        "distinct_keys": agg.get("keys", 0),
        "keys_seen_on_multiple_instances_or_incarnations": agg.get("multi_instance_keys", 0),
        "construct_outcome_anomalies_across_nodes": agg.get("anomalies", 0),
        "distinct_environments": len(envs),
        "distinct_hash_seeds": len(hashseeds),
        "effective_locales_seen": sorted(locales),
        "cwd_states_seen": sorted(cwds),
        "fault_kinds_fired": {k: v for k, v in sorted(stats.items()) if k.startswith("fault.")},
        "interpreter_starts": stats.get("node_starts", 0),
        "runs_per_hour": int(runs / wall * 3600) if wall > 0 else 0,
        "seeds": {"VERIF_SEED": seed, "run_indices": "0..%d" % max(0, runs - 1)},
        "simulated_time": "%d simulated seconds of idle periods on the nodes' clocks (each node has its own simulated wall and monotonic clock, skewed "
                          "at start, moved by reads and by generated idle operations; the pinned tree reads no clock)" % stats.get("sim_idle_seconds", 0),
        "real_components": ["child interpreter processes", "pyab_experiment", "pydantic", "hashlib"],
        "stubbed_components": ["none in the package; the 'network' is a synchronous pipe owned by the simulator",
                               "per-node entropy sources (os.urandom, random seed, time.time / monotonic, os.getpid) fed from the scenario",
                               "per-node disk: private initially empty HOME / TMPDIR / XDG_* that survives the node's crash-restarts"],
        "workers": common.n_workers(),
    }
    common.write_evidence(PROP, tier, seed, cov, wall, len(paths),
                          ["only locales C / C.utf8 / POSIX exist in this image (other names fall back to C)",
                           "a deleted cwd stands in for an unreadable one (root cannot be denied access)",
                           "texts are generator-intended grammatical experiments with >= 1 splitter; a text the tree rejects on some node is an anomaly, not a C01 violation",
                           "sampling, not proof"])
    if runs == 0 and not harness:
        harness.append("no run was executed")
    print(f"C01 {tier}: deployments={runs} ops={agg.get('ops', 0)} calls={agg.get('calls', 0)} keys={agg.get('keys', 0)} "
          f"cross_process_keys={agg.get('cross_process_keys', 0)} hash_seeds={len(hashseeds)} violations_raw={agg.get('violations', 0)} "
          f"reported={len(paths)} wall={wall:.1f}s")
    return driver.finish(PROP, paths, known_hits, harness, unreproduced)
