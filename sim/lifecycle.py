"""C11 engine: fault-injecting lifecycle simulator against a fresh-evaluator reference model
(DESIGN.md section 4).

One run = one alphabet of texts + one operation list + faults, all derived from one PRNG.
The engine executes the operations against real ExperimentEvaluator objects, keeps the reference
model (per slot: last accepted text) and checks transition rules and the cross-invariant
("every live evaluator behaves like a fresh evaluator of its accepted text") after every operation.
"""

from __future__ import annotations

import errno
import gc
import os
import random
import sys

from . import gen
from .common import HarnessError, SimStream, digest_obj, outcome_of, repo_src
from .threads import SimDeadlock

PROP = "C11"


class InjectedFault(Exception):
    """Failure injected by the simulator inside a compile stage."""


FAULT_EXC = {
    "KeyboardInterrupt": KeyboardInterrupt,      # not an Exception subclass: "raises and changes nothing" has no exemption for it
    "InjectedFault": InjectedFault,
    "MemoryError": MemoryError,
    "RecursionError": RecursionError,
    "OSError": OSError,
}


# ---------------------------------------------------------------------------
# stage-frame classification (where crash points may land)
# ---------------------------------------------------------------------------
class StageFilter:
    def __init__(self):
        self.pkg = os.path.join(repo_src(), "pyab_experiment") + os.sep
        self.cache = {}

    def is_stage(self, code):
        e = self.cache.get(id(code))     # id(): hashing a code object is expensive; the entry keeps the object alive
        r = e[0] if e is not None else None
        if r is None:
            fn = code.co_filename
            if fn == "<string>":
                r = True
            elif fn.startswith(self.pkg):
                r = not fn.endswith("experiment_evaluator.py")
            else:
                r = False
            self.cache[id(code)] = (r, code)
        return r


class CleanupMap:
    """Where an injected failure would be one that no callee can produce, or one that no implementation is expected to
    survive: the implicit `__exit__` call at the end of a `with` block (an exception raised on that line event is raised
    BEFORE `__exit__` runs, like an asynchronous exception - the lock of a `with lock:` would stay held), and the bodies of
    `except` / `finally` clauses and of `__exit__` / `__del__` methods (the code that restores state and releases resources).
    A crash point that falls there, or in anything called from there, moves on to the next eligible event."""

    def __init__(self):
        self.file_lines = {}
        self.exit_offsets = {}

    def cleanup_lines(self, filename):
        r = self.file_lines.get(filename)
        if r is None:
            r = set()
            try:
                import ast

                with open(filename, encoding="utf-8") as fp:
                    tree = ast.parse(fp.read())
                for node in ast.walk(tree):
                    if isinstance(node, (ast.Try, getattr(ast, "TryStar", ast.Try))):
                        for h in node.handlers:
                            r.update(range(h.lineno, (h.end_lineno or h.lineno) + 1))
                        for st in node.finalbody:
                            r.update(range(st.lineno, (st.end_lineno or st.lineno) + 1))
                    elif isinstance(node, (ast.FunctionDef, ast.AsyncFunctionDef)) and node.name in ("__exit__", "__aexit__", "__del__"):
                        r.update(range(node.lineno, (node.end_lineno or node.lineno) + 1))
            except (OSError, SyntaxError, UnicodeDecodeError, ValueError):
                pass
            self.file_lines[filename] = r
        return r

    def with_exit_offsets(self, code):
        e = self.exit_offsets.get(id(code))
        if e is None:
            import dis

            ins = list(dis.get_instructions(code))
            offs = set()
            for i in range(len(ins) - 3):
                a, b, c, d = ins[i:i + 4]
                if (a.opname == b.opname == c.opname == "LOAD_CONST" and a.argval is None and b.argval is None and c.argval is None
                        and d.opname.startswith("CALL")):
                    offs.add(a.offset)
            e = (offs, code)
            self.exit_offsets[id(code)] = e
        return e[0]

    def eligible(self, frame, stage_filter):
        """May a failure originate at this point of `frame`?"""
        if frame.f_lasti in self.with_exit_offsets(frame.f_code):
            return False
        f = frame
        while f is not None:
            if stage_filter.is_stage(f.f_code) and f.f_code.co_filename != "<string>":
                if f.f_lineno in self.cleanup_lines(f.f_code.co_filename):
                    return False
            f = f.f_back
        return True


class CrashTracer:
    """Counts line events and call events in stage frames; raises `exc` at the k-th line event (on="line") or on entry
    to the k-th stage call (on="call"). k=None: count only."""

    cleanup = CleanupMap()

    def __init__(self, stage_filter, k=None, exc=InjectedFault, on="line"):
        self.sf = stage_filter
        self.k = k
        self.on = on
        self.exc = exc
        self.n = 0            # line events
        self.calls = 0        # call events
        self.fired = False
        self.where = None

    def __call__(self, frame, event, arg):  # global trace: 'call' events
        if self.sf.is_stage(frame.f_code):
            self.calls += 1
            if self.on == "call" and self.k is not None and self.calls >= self.k and not self.fired and self.cleanup.eligible(frame, self.sf):
                self.fired = True
                self.where = (os.path.basename(frame.f_code.co_filename), frame.f_code.co_firstlineno)
                raise self.exc("injected on entry to stage call %d (%s)" % (self.k, frame.f_code.co_name))
            return self.local
        return None

    def local(self, frame, event, arg):
        if event == "line":
            self.n += 1
            if self.on == "line" and self.k is not None and self.n >= self.k and not self.fired and self.cleanup.eligible(frame, self.sf):
                self.fired = True
                self.where = (os.path.basename(frame.f_code.co_filename), frame.f_lineno)
                raise self.exc("injected at stage line event %d" % self.k)
        return self.local


# ---------------------------------------------------------------------------
# scenario generation (pure function of the PRNG)
# ---------------------------------------------------------------------------
def gen_sweep_scenario(rng, index):
    """Systematic part of the search: one evaluator, and a window of CONSECUTIVE crash points (stage calls or stage line
    events) of one compile, each injected into its own recompile attempt. Windows of different runs tile the whole compile,
    so a long batch visits every crash point of the sampled texts. After each failed attempt the cross-invariant demands the
    old behaviour; the final fault-free recompile must switch."""
    base = gen.gen_program(rng, f"r{index}t0", depths=[0, 1, 1, 2], compact=rng.random() < 0.5)
    other = gen.variant_of(rng, base, f"r{index}t1") if rng.random() < 0.6 else gen.gen_program(rng, f"r{index}t1", depths=[0, 1, 2])
    texts = [{"tid": p.tid, "text": p.text, "kind": p.kind, "note": p.note, "panel": gen.gen_panel(rng, p, n=6, ascii_only=True)}
             for p in (base, other)]
    mode = rng.choice(["call", "call", "line"])
    width = rng.choice([30, 60, 100])
    start = (index // 20) * width + rng.randrange(7) * 10007
    exc = rng.choice(["InjectedFault", "MemoryError", "OSError"])
    ops = [{"op": "new", "slot": 0, "t": 0}]
    for j in range(width):
        ops.append({"op": "recompile", "slot": 0, "t": 1, "fault": {"kind": "crash", "mode": mode, "abs": start + j, "exc": exc}})
        if j % 25 == 24:
            ops.append({"op": "recompile", "slot": 0, "t": 0})      # the current text again: a no-op
    ops.append({"op": "recompile", "slot": 0, "t": 1})
    ops.append({"op": "recompile", "slot": 0, "t": 0})
    return {"index": index, "faults_enabled": True, "n_slots": 1, "texts": texts, "ops": ops, "family": "crash-sweep"}


def gen_churn_scenario(rng, index):
    """Long-lived evaluators: one or two evaluators are taken through 20-48 distinct small texts (revisions of one experiment)
    and back to early ones - bounded per-evaluator or per-process histories / caches wrap around only here."""
    base = gen.gen_program(rng, f"r{index}t0", depths=[0, 0, 1], compact=True, splitters=(1, 2), p_giant=0.0)
    progs = [base]
    n = rng.choice([20, 34, 48])
    for j in range(1, n):
        progs.append(gen.variant_of(rng, base, f"r{index}t{j}"))
    if rng.random() < 0.5:
        progs.append(gen.gen_program(rng, f"r{index}t{len(progs)}", depths=[0, 1], compact=True, p_giant=1.0))   # one very large source
    texts = [{"tid": p.tid, "text": p.text, "kind": p.kind, "note": p.note, "panel": gen.gen_panel(rng, p, n=4, ascii_only=True)} for p in progs]
    n_slots = rng.choice([1, 2])
    ops = [{"op": "new", "slot": s, "t": 0} for s in range(n_slots)]
    order = list(range(1, len(progs)))
    for t in order:
        ops.append({"op": "recompile", "slot": rng.randrange(n_slots), "t": t})
    for _ in range(rng.choice([4, 8, 12])):
        ops.append({"op": "recompile", "slot": rng.randrange(n_slots), "t": rng.randrange(0, min(6, len(progs)))})   # back to evicted early ones
        if rng.random() < 0.5:
            ops.append({"op": "recompile", "slot": rng.randrange(n_slots), "t": rng.randrange(len(progs))})
    return {"index": index, "faults_enabled": False, "n_slots": n_slots, "texts": texts, "ops": ops, "family": "churn"}


def gen_deep_scenario(rng, index):
    """Texts that run into the interpreter's depth limits (recursion limit, nesting limits of compile()) next to ordinary ones: their
    verdicts depend on process-wide settings, so 'raises every time' and 'no operation on one evaluator affects another' also say that no
    operation may leave such a setting changed. Every entry into the package happens at one fixed stack depth (Runner._lib)."""
    name = rng.choice(["exp_a", "deep"])
    progs = [gen.gen_program(rng, f"r{index}t0", depths=[0, 1], compact=True, p_giant=0.0, name=name)]
    for j in range(rng.choice([2, 3, 4])):
        progs.append(gen.deep_program(rng, f"r{index}t{len(progs)}", name if rng.random() < 0.7 else "deep2"))
    if rng.random() < 0.5:
        progs.append(gen.gen_invalid(rng, progs[0], f"r{index}t{len(progs)}"))
    texts = [{"tid": p.tid, "text": p.text, "kind": p.kind, "note": p.note, "panel": gen.gen_panel(rng, p, n=4, ascii_only=True)} for p in progs]
    n_slots = rng.choice([1, 2, 3])
    ops, prev = [], None
    for _ in range(rng.choice([6, 10, 16, 24])):
        r = rng.random()
        if prev is not None and r < 0.35:
            op = {"op": "recompile", "slot": prev["slot"], "t": prev["t"]}                    # the same text again, same evaluator
        elif prev is not None and r < 0.5:
            op = {"op": "new", "slot": rng.randrange(n_slots), "t": prev["t"]}               # the same text again, another evaluator
        elif r < 0.9:
            op = {"op": rng.choice(["new", "recompile", "recompile"]), "slot": rng.randrange(n_slots), "t": rng.randrange(len(progs))}
        else:
            t = rng.randrange(len(progs))
            op = {"op": "call", "slot": rng.randrange(n_slots), "fields": gen.gen_fields(rng, progs[t], ascii_only=True)}
        ops.append(op)
        prev = op if op["op"] != "call" else prev
    return {"index": index, "faults_enabled": False, "n_slots": n_slots, "texts": texts, "ops": ops, "family": "deep",
            "cold_ref": rng.random() < 0.5}


def gen_scenario(rng, index, faults_enabled):
    """Returns a JSON-serialisable scenario: alphabet + panels + op list."""
    if index % 20 == 5:
        return gen_deep_scenario(rng, index)
    if index % 20 == 19:
        return gen_sweep_scenario(rng, index)
    if index % 20 == 9:
        return gen_churn_scenario(rng, index)
    n_base = rng.choice([1, 2, 2, 3])
    progs = []
    shared_name = rng.choice(["exp_a", "exp_b", "cfg"])
    for j in range(n_base):
        opts = {}
        if rng.random() < 0.6:
            opts["name"] = shared_name          # several texts share one experiment name
        if rng.random() < 0.25:
            opts["splitters"] = (0, 0)          # random-branch experiments too
        progs.append(gen.gen_program(rng, f"r{index}t{len(progs)}", **opts))
    for j in range(rng.choice([1, 2, 3])):
        progs.append(gen.variant_of(rng, rng.choice(progs[:n_base]), f"r{index}t{len(progs)}"))
    pairs = []       # (index a, index b): texts that a careless normalisation would take for the same text
    if rng.random() < 0.35:
        b = rng.randrange(len(progs))
        progs.append(gen.near_variant_of(rng, progs[b], f"r{index}t{len(progs)}"))
        pairs.append((b, len(progs) - 1))
    if rng.random() < 0.3:
        pair = gen.lookalike_pair(rng, rng.choice(progs), f"r{index}t{len(progs)}", f"r{index}t{len(progs) + 1}")
        if pair:
            progs.extend(pair)
            pairs.append((len(progs) - 2, len(progs) - 1))
    n_valid_intended = len(progs)
    for j in range(rng.choice([1, 2, 3, 4])):
        progs.append(gen.gen_invalid(rng, rng.choice(progs[:n_valid_intended]), f"r{index}t{len(progs)}"))
    texts = []
    for p in progs:
        texts.append({"tid": p.tid, "text": p.text, "kind": p.kind, "note": p.note,
                      "panel": gen.gen_panel(rng, p, n=rng.choice([6, 8, 10]), ascii_only=rng.random() < 0.7)})

    n_slots = rng.choice([1, 2, 2, 3, 4])
    n_ops = rng.choice([4, 6, 8, 12, 16, 24, 32, 40])
    if faults_enabled:
        kinds = [k for k in ("crash", "stdout", "stderr", "stdio_none") if rng.random() < 0.6] or ["crash"]
        p_fault = rng.choice([0.1, 0.2, 0.35])
    else:
        kinds, p_fault = [], 0.0
    w_invalid = rng.choice([0.15, 0.3, 0.5])
    ops = []
    live = [False] * n_slots
    prev = None
    for _ in range(n_ops):
        r = rng.random()
        slot = rng.randrange(n_slots)
        if prev is not None and prev["op"] in ("new", "recompile") and r < 0.3:
            # the short shapes that matter: repeat the previous text on the same slot, fault-free
            op = {"op": "recompile" if live[prev["slot"]] else "new", "slot": prev["slot"], "t": prev["t"]}
        elif r < 0.62 or not live[slot]:
            if rng.random() < w_invalid:
                t = rng.randrange(n_valid_intended, len(progs))
            else:
                t = rng.randrange(0, n_valid_intended)
            kind = "recompile" if (live[slot] and rng.random() < 0.85) else "new"
            op = {"op": kind, "slot": slot, "t": t}
            if kinds and rng.random() < p_fault:
                fk = rng.choice(kinds)
                f = {"kind": fk}
                if fk == "crash":
                    f["u"] = rng.random()
                    # where: uniform over line events / over stage calls, or shortly before the end of the compile
                    f["mode"] = rng.choice(["line", "line", "call", "late_line", "late_call", "late_call"])
                    f["exc"] = rng.choice(["InjectedFault", "InjectedFault", "MemoryError", "RecursionError", "OSError", "KeyboardInterrupt"])
                elif fk in ("stdout", "stderr"):
                    f["errno"] = rng.choice(["EPIPE", "ENOSPC", "EIO"])
                op["fault"] = f
        elif r < 0.9:
            t = rng.randrange(0, n_valid_intended)
            op = {"op": "call", "slot": slot, "fields": gen.gen_fields(rng, progs[t])}
        elif r < 0.96:
            op = {"op": "drop", "slot": slot}
        else:
            op = {"op": "gc"}
        if op["op"] == "new":
            live[op["slot"]] = True      # intended; a failing `new` leaves the slot as it was (the model tracks the truth)
        if op["op"] == "drop":
            live[op["slot"]] = False
        ops.append(op)
        prev = op if op["op"] in ("new", "recompile") else None
    # the short shape that matters for look-alike texts: one straight after the other on the same evaluator, and back
    for (a, b) in pairs:
        if rng.random() < 0.7:
            slot = rng.randrange(n_slots)
            if rng.random() < 0.5:
                a, b = b, a
            seq = [{"op": "new" if rng.random() < 0.5 else "recompile", "slot": slot, "t": a}, {"op": "recompile", "slot": slot, "t": b}]
            if rng.random() < 0.5:
                seq.append({"op": "recompile", "slot": slot, "t": a})
            at = rng.randrange(len(ops) + 1)
            ops[at:at] = seq
    # 'cold reference': the pristine verdicts come from a SEPARATE fresh process, so that the process under test has compiled
    # nothing before its history starts (first-compile-in-a-process effects are not healed or pre-paid by the reference)
    sc = {"index": index, "faults_enabled": bool(faults_enabled), "n_slots": n_slots, "texts": texts, "ops": ops,
          "cold_ref": rng.random() < 0.25}
    # clock faults (drawn last, so the rest of the scenario is what it was before clocks were simulated): idle periods between
    # operations - seconds to a year on both clocks - and steps of the wall clock alone, also backwards
    if rng.random() < 0.3:
        from .common import gen_idle

        for _ in range(rng.choice([1, 1, 2, 3])):
            ops.insert(rng.randrange(1, len(ops) + 1), gen_idle(rng))
    return sc


# ---------------------------------------------------------------------------
# execution
# ---------------------------------------------------------------------------
def _stack_depth():
    f, n = sys._getframe(), 0
    while f is not None:
        n += 1
        f = f.f_back
    return n


def _pad_call(n, fn, a, kw):
    if n <= 0:
        return fn(*a, **kw)
    return _pad_call(n - 1, fn, a, kw)


NORM_DEPTH = 150


def at_depth(target, fn, *a, **kw):
    """Calls fn with exactly `target` Python frames below it, whatever the harness's own call depth is: the outcome of an operation
    on a text that exhausts the interpreter's recursion limit is then a function of (text, limit) and not of who asked."""
    d = _stack_depth()
    if d + 1 > target:
        raise HarnessError(f"harness stack depth {d} exceeds the normalised depth {target}")
    return _pad_call(target - d - 1, fn, a, kw)


class Violation(Exception):
    def __init__(self, vclass, detail):
        super().__init__(vclass)
        self.vclass = vclass
        self.detail = detail


class Runner:
    """Executes one scenario. `stats` is an optional dict of counters to update."""

    def __init__(self, stats=None):
        from pyab_experiment.experiment_evaluator import ExperimentEvaluator

        self.EE = ExperimentEvaluator
        self.sf = StageFilter()
        self.stats = stats if stats is not None else {}
        self.out = SimStream("stdout")
        self.err = SimStream("stderr")

    def bump(self, key, n=1):
        self.stats[key] = self.stats.get(key, 0) + n

    norm_depth = None

    def _lib(self, fn, *a, **kw):
        """Every entry into the package goes through here; in 'deep' scenarios at a fixed stack depth."""
        if self.norm_depth:
            return at_depth(self.norm_depth, fn, *a, **kw)
        return fn(*a, **kw)

    # -- pristine judgement ------------------------------------------------
    def judge(self, t, all_tids):
        """The tree's own verdict on a text, with clean stdio and no fault."""
        self.out.fail_errno = self.err.fail_errno = None
        try:
            ev = self._lib(self.EE, t["text"])
        except Exception as e:  # noqa: BLE001
            j = {"accepts": False, "exc": type(e).__name__, "ev": None, "ref": None}
        else:
            ref = []
            for i, fields in enumerate(t["panel"]):
                random.seed(1000 + i)
                ref.append(self._lib(outcome_of, ev, **fields))
            j = {"accepts": True, "exc": None, "ev": ev, "ref": ref}
            for o in ref:
                self.check_foreign(o, t["tid"], all_tids, "pristine evaluator of " + t["tid"])
        j["stdout"] = bool(self.out.take())
        j["stderr"] = bool(self.err.take())
        return j

    def check_foreign(self, o, tid, all_tids, who):
        """A returned label that carries the id of ANOTHER text of the alphabet and does not occur anywhere in this
        text's own source can only come from interference between texts / evaluators."""
        if o[0] == "ok" and o[1] == "str":
            try:
                import ast

                lab = ast.literal_eval(o[2])           # o[2] is a repr
            except (ValueError, SyntaxError):
                return
            head = lab.split(".", 1)[0]
            if head != tid and head in all_tids and lab not in self.sources.get(tid, ""):
                raise Violation("foreign-label", f"{who} returned group {o[2]} which belongs to text {head}")

    def _judge_json(self, sc):
        """Runs in a separate fresh process: pristine verdict of every text, JSON-serialisable (no evaluator objects)."""
        texts = sc["texts"]
        all_tids = {t["tid"] for t in texts}
        self.sources = {t["tid"]: t["text"] for t in texts}
        self.norm_depth = NORM_DEPTH if sc.get("family") == "deep" else None
        old = sys.stdout, sys.stderr
        sys.stdout, sys.stderr = self.out, self.err
        try:
            out = []
            for t in texts:
                try:
                    j = self.judge(t, all_tids)
                except Violation as v:
                    return {"violation": [v.vclass, v.detail]}
                except SimDeadlock as e:
                    return {"violation": ["operation-never-returns", {"phase": "pristine constructions in a fresh process", "detail": str(e)}]}
                j = dict(j)
                j["ev"] = None
                out.append(j)
            return {"judged": out}
        finally:
            sys.stdout, sys.stderr = old

    def _count_json(self, text):
        return list(self.count_stage_events(text))

    def count_stage_events(self, text):
        tr = CrashTracer(self.sf, k=None)
        sys.settrace(tr)
        try:
            try:
                self.EE(text)
            except Exception:  # noqa: BLE001
                pass
        finally:
            sys.settrace(None)
        return (tr.n, tr.calls)

    # -- one scenario --------------------------------------------------------
    def run(self, sc):
        """Runs the scenario in a forked child (identical pristine process image for every run)."""
        from .common import run_isolated

        return run_isolated(self.run_here, (sc,), timeout=300.0)

    def run_here(self, sc, trace=None):
        """Returns dict(result='ok'|'violation', ...). Never raises for property violations."""
        from .common import SimClock

        old_out, old_err = sys.stdout, sys.stderr
        sys.stdout, sys.stderr = self.out, self.err
        # the run's clocks: start value from the scenario, moved only by reads (1 us each) and by `idle` operations
        self.clock = SimClock(wall0=1_700_000_000.0 + (sc.get("index", 0) % 1000) * 86400.0 * 0.37, mono0=5_000.0 + sc.get("index", 0) % 977)
        self.clock.install()
        try:
            return self._run(sc, trace)
        finally:
            sys.settrace(None)
            self.clock.uninstall()
            sys.stdout, sys.stderr = old_out, old_err

    def _run(self, sc, trace):
        texts = sc["texts"]
        all_tids = {t["tid"] for t in texts}
        self.sources = {t["tid"]: t["text"] for t in texts}
        step_log = []
        info = {"ops_executed": 0, "states": set(), "crash_sites": set()}
        self.cold_ref = bool(sc.get("cold_ref"))
        self.norm_depth = NORM_DEPTH if sc.get("family") == "deep" else None
        try:
            if self.cold_ref:
                from .common import run_isolated

                r = run_isolated(self._judge_json, (sc,), timeout=300.0)
                if "violation" in r:
                    raise Violation(r["violation"][0], r["violation"][1])
                judged = r["judged"]
                for j in judged:
                    if j["ref"] is not None:
                        j["ref"] = [tuple(o) for o in j["ref"]]
                self.bump("probe.cold_reference_runs")
            else:
                judged = [self.judge(t, all_tids) for t in texts]
        except Violation as v:
            return self._viol(v, -1, sc, step_log, info)
        except SimDeadlock as e:
            return self._viol(Violation("operation-never-returns", {"phase": "pristine constructions, one after another", "detail": str(e)}),
                              -1, sc, step_log, info)
        n_slots = sc["n_slots"]
        slots = [None] * n_slots            # real evaluators
        model = [None] * n_slots            # index of accepted text, or None
        tainted = [False] * n_slots
        last = [None] * n_slots             # (text idx, result class) of last attempt, for the abstract state
        stage_counts = {}
        for step, op in enumerate(sc["ops"]):
            kind = op["op"]
            rec = {"step": step, "op": kind}
            try:
                if kind in ("new", "recompile"):
                    self._do_compile(op, rec, texts, judged, slots, model, tainted, last, stage_counts, info)
                elif kind == "call":
                    s = op["slot"]
                    if slots[s] is not None and not tainted[s] and judged[model[s]]["ev"] is None:
                        # cold reference: no reference evaluator lives in this process; use the panel entry this call maps to
                        panel = texts[model[s]]["panel"]
                        i = gen.hash_str(repr(sorted(op["fields"].items(), key=lambda kv: kv[0]))) % len(panel)
                        random.seed(1000 + i)
                        got = self._lib(outcome_of, slots[s], **panel[i])
                        rec["got"] = got
                        self.bump("calls")
                        if got != judged[model[s]]["ref"][i]:
                            raise Violation("call-mismatch", {"slot": s, "fields": panel[i], "got": got, "expected": judged[model[s]]["ref"][i],
                                                               "accepted": texts[model[s]]["tid"]})
                    elif slots[s] is not None and not tainted[s]:
                        random.seed(77)
                        got = self._lib(outcome_of, slots[s], **op["fields"])
                        random.seed(77)
                        exp = self._lib(outcome_of, judged[model[s]]["ev"], **op["fields"])
                        rec["got"] = got
                        self.bump("calls")
                        if got != exp:
                            raise Violation("call-mismatch", {"slot": s, "fields": op["fields"], "got": got,
                                                               "expected": exp, "accepted": texts[model[s]]["tid"]})
                        self.check_foreign(got, texts[model[s]]["tid"], all_tids, f"slot {s}")
                elif kind == "drop":
                    s = op["slot"]
                    slots[s] = None
                    model[s] = None
                    tainted[s] = False
                    last[s] = None
                    gc.collect()
                    self.bump("fault.lifetime_drop_gc")
                elif kind == "gc":
                    gc.collect()
                elif kind == "idle":
                    self.clock.advance(op["dt"], op.get("wall_step", 0.0))
                    self.bump("fault.clock_idle_period")
                    self.bump("sim_idle_seconds", int(op["dt"]))
                    if op.get("wall_step"):
                        self.bump("fault.clock_wall_step_back" if op["wall_step"] < 0 else "fault.clock_wall_step_forward")
                else:
                    raise HarnessError("unknown op " + kind)
                # cross-invariant after every step, for every live slot (not straight after an idle period: the probe calls would
                # themselves end the idleness the next operation is meant to meet)
                if kind != "idle":
                    self._check_all(step, op, texts, judged, slots, model, tainted, all_tids)
            except SimDeadlock as e:
                sys.settrace(None)
                v = Violation("operation-never-returns", {"op": op, "why": "the operation blocks on a lock that an earlier (finished or failed) "
                                                                          "operation left held; nothing else is running, so it would never return",
                                                          "detail": str(e)})
                rec["violation"] = v.vclass
                step_log.append(rec)
                info["ops_executed"] = step + 1
                return self._viol(v, step, sc, step_log, info)
            except Violation as v:
                rec["violation"] = v.vclass
                step_log.append(rec)
                info["ops_executed"] = step + 1
                return self._viol(v, step, sc, step_log, info)
            step_log.append(rec)
            st = tuple((model[s], last[s], tainted[s]) for s in range(n_slots))
            if any(x is not None for x in last):
                info["states"].add(digest_obj(st))
        info["ops_executed"] = len(sc["ops"])
        return {"result": "ok", "log": step_log, "info": self._fin(info)}

    def _fin(self, info):
        info["states"] = sorted(info["states"])
        info["crash_sites"] = sorted(list(x) for x in info["crash_sites"])
        info["stats"] = self.stats
        return info

    def _viol(self, v, step, sc, step_log, info):
        self._fin(info)
        return {"result": "violation", "vclass": v.vclass, "detail": v.detail, "step": step, "log": step_log,
                "info": info}

    def _do_compile(self, op, rec, texts, judged, slots, model, tainted, last, stage_counts, info):
        s, ti = op["slot"], op["t"]
        t, j = texts[ti], judged[ti]
        kind = op["op"]
        if kind == "recompile" and slots[s] is None:
            kind = "new"                       # nothing to recompile: construct instead
        rec["op"] = kind
        rec["slot"], rec["tid"] = s, t["tid"]
        fault = op.get("fault")
        tracer = None
        self.out.fail_errno = self.err.fail_errno = None
        self.out.fired = self.err.fired = 0
        none_stdio = False
        if fault:
            fk = fault["kind"]
            if fk == "crash":
                if ti not in stage_counts:
                    if getattr(self, "cold_ref", False):
                        from .common import run_isolated

                        stage_counts[ti] = tuple(run_isolated(self._count_json, (t["text"],), timeout=120.0))
                    else:
                        stage_counts[ti] = self.count_stage_events(t["text"])
                    self.out.take(), self.err.take()
                n_lines, n_calls = stage_counts[ti]
                mode = fault.get("mode", "line")
                on = "call" if mode.endswith("call") else "line"
                total = n_calls if on == "call" else n_lines
                if total > 0:
                    if "abs" in fault:
                        k = 1 + fault["abs"] % total
                    elif mode.startswith("late"):
                        k = max(1, total - int(fault["u"] * min(total, 12 if on == "call" else 40)))
                    else:
                        k = 1 + int(fault["u"] * total)
                    tracer = CrashTracer(self.sf, k=k, exc=FAULT_EXC[fault["exc"]], on=on)
                    rec["k"] = [mode, k]
            elif fk == "stdout":
                self.out.fail_errno = getattr(errno, fault["errno"])
            elif fk == "stderr":
                self.err.fail_errno = getattr(errno, fault["errno"])
            elif fk == "stdio_none":
                none_stdio = True
        if none_stdio:
            sys.stdout = sys.stderr = None
        if tracer:
            sys.settrace(tracer)
        try:
            if kind == "new":
                try:
                    obj = self._lib(self.EE, t["text"])
                    res = ("ok",)
                except SimDeadlock:
                    raise
                except BaseException as e:  # noqa: BLE001 - injected KeyboardInterrupt included
                    obj = None
                    res = ("raise", type(e).__name__)
            else:
                obj = None
                try:
                    r = self._lib(slots[s].recompile, t["text"])
                    res = ("ok",) if r is None else ("ok-nonnone", repr(r))
                except SimDeadlock:
                    raise
                except BaseException as e:  # noqa: BLE001
                    res = ("raise", type(e).__name__)
        finally:
            sys.settrace(None)
            if none_stdio:
                sys.stdout, sys.stderr = self.out, self.err
        fired = False
        if tracer and tracer.fired:
            fired = True
            self.bump("fault.crash." + fault["exc"])
            self.bump("fault.crash_mode." + fault.get("mode", "line"))
            info["crash_sites"].add(tracer.where)
        if fault and fault["kind"] in ("stdout", "stderr") and (self.out.fired or self.err.fired):
            fired = True
            self.bump("fault.stdio_error." + fault["errno"])
        if fault and fault["kind"] == "stdio_none":
            # fired only if the tree would have written something for this text
            if j["stdout"] or j["stderr"]:
                fired = True
                self.bump("fault.stdio_none")
        self.out.fail_errno = self.err.fail_errno = None
        printed = bool(self.out.take()) | bool(self.err.take())
        rec["res"], rec["fired"] = res, fired
        raised = res[0] == "raise"
        self.bump(("op.%s." % kind) + ("raise" if raised else "ok"))
        same_as_current = (kind == "recompile" and model[s] is not None and texts[model[s]]["text"] == t["text"])

        if not j["accepts"]:
            # rule 1 / 3 / 5: a text the tree rejects must be refused, every time, whatever faults are around
            self.bump("fault.invalid_text." + j["exc"])
            if not raised and not (kind == "recompile" and same_as_current):
                raise Violation("invalid-accepted",
                                {"slot": s, "op": kind, "tid": t["tid"], "note": t["note"], "text": t["text"],
                                 "pristine": j["exc"], "got": res, "fault_fired": fired,
                                 "why": "the tree rejects this text when given to a fresh evaluator, "
                                        "but this %s returned normally" % kind})
            last[s] = (ti, "rejected")
            return
        # text is accepted by the tree
        if not fired:
            if raised:
                raise Violation("valid-rejected", {"slot": s, "op": kind, "tid": t["tid"], "text": t["text"], "got": res,
                                                    "why": "fault-free %s of a text the tree accepts raised" % kind})
            if kind == "new":
                slots[s] = obj
            model[s] = ti
            tainted[s] = False if kind == "new" else tainted[s]
            last[s] = (ti, "accepted")
            if same_as_current:
                self.bump("probe.noop_recompile")
            return
        # a fault fired during an operation on an accepted text
        if raised:
            last[s] = (ti, "fault:" + fault["kind"])
            self.bump("probe.fault_raised_on_valid_text")
            if fault.get("exc") == "KeyboardInterrupt" and kind == "recompile" and slots[s] is not None and not tainted[s]:
                # An exception that is not an Exception models an ASYNCHRONOUS interrupt: it may be delivered after the
                # implementation's commit point (e.g. inside harmless bookkeeping that follows publication), so "it raised"
                # does not tell whether the switch had happened. Either outcome is legal, a mixture is not - and whatever
                # it is, later operations must keep working (a retry of the same text must take effect).
                def like(tx):
                    for i, fields in enumerate(texts[tx]["panel"]):
                        random.seed(1000 + i)
                        if outcome_of(slots[s], **fields) != judged[tx]["ref"][i]:
                            return False
                    return True

                if model[s] is not None and like(model[s]):
                    pass                                    # unchanged
                elif like(ti):
                    model[s] = ti                           # switched completely before the interrupt was delivered
                    self.bump("probe.interrupt_after_commit")
                else:
                    raise Violation("mixture-after-interrupt",
                                    {"slot": s, "old": texts[model[s]]["tid"] if model[s] is not None else None, "new": t["tid"],
                                     "why": "after an interrupted recompile the evaluator behaves neither like the old nor like the new text"})
            return                              # rule 4: must change nothing (checked by the cross-invariant)
        # returned although the fault fired
        if fault["kind"] == "crash":
            if same_as_current:
                return
            # something swallowed the injected exception: narrow relaxation
            self.bump("faults_swallowed")
            if kind == "new":
                slots[s] = obj
                model[s] = ti
            tainted[s] = True
            return
        # stdio fault that did not prevent success (rule 5): switched
        if kind == "new":
            slots[s] = obj
            tainted[s] = False
        model[s] = ti
        last[s] = (ti, "accepted-under-stdio-fault")

    def _check_all(self, step, op, texts, judged, slots, model, tainted, all_tids):
        target = op.get("slot")
        for s, ev in enumerate(slots):
            if ev is None or tainted[s]:
                continue
            ti = model[s]
            j = judged[ti]
            panel = texts[ti]["panel"]
            for i, fields in enumerate(panel):
                random.seed(1000 + i)
                got = self._lib(outcome_of, ev, **fields)
                if got != j["ref"][i]:
                    if s != target and op["op"] not in ("gc", "idle"):
                        vclass = "other-slot-changed"
                    else:
                        res = None
                        vclass = "diverged-after-" + op["op"]
                    raise Violation(vclass, {"slot": s, "op_slot": target, "accepted": texts[ti]["tid"], "fields": fields,
                                             "got": got, "expected": j["ref"][i],
                                             "why": "evaluator does not behave like a fresh evaluator of its last accepted text"})
                self.check_foreign(got, texts[ti]["tid"], all_tids, f"slot {s}")
            self.bump("probe_calls", len(panel))


def warmup():
    """Absorb lazy imports and the first-trace-cycle quirk before run 0."""
    from pyab_experiment.experiment_evaluator import ExperimentEvaluator

    sf = StageFilter()
    tr = CrashTracer(sf)
    old = sys.stdout, sys.stderr
    sys.stdout, sys.stderr = SimStream("o"), SimStream("e")
    try:
        for text in ("def w{ splitters: a if b >= 1 and c in (1,2) { return \"x\" weighted 1, 2 weighted 0.5 } else { return \"y\" weighted 1 } }",
                     "def w{ /* c */ return \"x\" weighted 1 }", "def w{ @ return }"):
            sys.settrace(tr)
            try:
                try:
                    ev = ExperimentEvaluator(text)
                    ev(a=1, b=2, c=3)
                except Exception:  # noqa: BLE001
                    pass
            finally:
                sys.settrace(None)
    finally:
        sys.stdout, sys.stderr = old


# ---------------------------------------------------------------------------
# minimisation
# ---------------------------------------------------------------------------
def _same(res, vclass):
    return res["result"] == "violation" and res["vclass"] == vclass


def minimise(sc, vclass, runner, budget=400):
    """ddmin over operations, then drop unused texts / slots, then simplify faults.
    Keeps a candidate only if the same violation class persists."""
    tries = [0]

    def fails(cand):
        tries[0] += 1
        if tries[0] > budget:
            return False
        return _same(runner.run(cand), vclass)

    def with_ops(ops):
        c = dict(sc_cur)
        c["ops"] = ops
        return c

    sc_cur = dict(sc)
    ops = list(sc_cur["ops"])
    # cut the tail after the failing step first
    res = runner.run(sc_cur)
    if _same(res, vclass) and res["step"] >= 0:
        ops = ops[: res["step"] + 1]
        sc_cur = with_ops(ops)
    n = 2
    while len(ops) >= 2 and tries[0] <= budget:
        chunk = max(1, len(ops) // n)
        removed = False
        for i in range(0, len(ops), chunk):
            cand = ops[:i] + ops[i + chunk:]
            if cand and fails(with_ops(cand)):
                ops = cand
                sc_cur = with_ops(ops)
                n = max(2, n - 1)
                removed = True
                break
        if not removed:
            if chunk == 1:
                break
            n = min(len(ops), n * 2)
    # drop faults one at a time
    for i, op in enumerate(list(ops)):
        if "fault" in op:
            cand = list(ops)
            cand[i] = {k: v for k, v in op.items() if k != "fault"}
            if fails(with_ops(cand)):
                ops = cand
                sc_cur = with_ops(ops)
    # turn calls' fields / panel sizes down
    used = sorted({op["t"] for op in ops if "t" in op})
    remap = {old: new for new, old in enumerate(used)}
    cand = dict(sc_cur)
    cand["texts"] = [sc_cur["texts"][i] for i in used]
    cand["ops"] = [dict(op, t=remap[op["t"]]) if "t" in op else op for op in ops]
    if cand["texts"] and fails(cand):
        sc_cur = cand
        ops = cand["ops"]
    # renumber slots
    used_slots = sorted({op["slot"] for op in ops if "slot" in op})
    smap = {old: new for new, old in enumerate(used_slots)}
    cand = dict(sc_cur)
    cand["n_slots"] = max(1, len(used_slots))
    cand["ops"] = [dict(op, slot=smap[op["slot"]]) if "slot" in op else op for op in ops]
    if fails(cand):
        sc_cur = cand
    sc_cur["minimise_tries"] = tries[0]
    return sc_cur
